//! Hang watchdog: a call into the subject that never comes back *and* never touches the block device (a loop in pure
//! computation) cannot be stopped by the device-call horizon. Every `World::apply` registers the history it is
//! executing; a watchdog thread reports a call that has been running for longer than the limit as a violation of the
//! property being checked ("never hangs" is part of every property's "returns ...") and ends the process.

use crate::world::Op;
use std::sync::Mutex;
use std::time::{Duration, Instant};

struct Slot {
    since: Option<Instant>,
    depth: u32,
    hist: Vec<Op>,
}

static SLOTS: Mutex<Vec<std::sync::Arc<Mutex<Slot>>>> = Mutex::new(Vec::new());
static CONTEXT: Mutex<Option<(String, String, String, String)>> = Mutex::new(None); // (prop, tier, level, scenario)

thread_local! {
    static MY: std::sync::Arc<Mutex<Slot>> = {
        let s = std::sync::Arc::new(Mutex::new(Slot { since: None, depth: 0, hist: Vec::new() }));
        SLOTS.lock().unwrap().push(s.clone());
        s
    };
}

/// A call (or a group of calls) into the subject starts on this thread; `hist` is the history being executed.
pub fn begin(hist: &[Op]) {
    MY.with(|s| {
        let mut s = s.lock().unwrap();
        s.hist.clear();
        s.hist.extend_from_slice(hist);
        s.depth += 1;
        if s.depth == 1 {
            s.since = Some(Instant::now());
        }
    });
}

/// The same for calls made by an oracle directly (they are all wrapped in `catch_quiet`): the history is the one of the
/// last `World::apply` on this thread.
pub fn enter() {
    MY.with(|s| {
        let mut s = s.lock().unwrap();
        s.depth += 1;
        if s.depth == 1 {
            s.since = Some(Instant::now());
        }
    });
}

pub fn end() {
    MY.with(|s| {
        let mut s = s.lock().unwrap();
        s.depth = s.depth.saturating_sub(1);
        if s.depth == 0 {
            s.since = None;
        }
    });
}

/// Tell the watchdog which scenario is being explored (scenarios of one check run one after the other).
pub fn set_scenario(name: &str) {
    if let Some(c) = CONTEXT.lock().unwrap().as_mut() {
        c.3 = name.to_string();
    }
}

/// Start the watchdog for this process.
pub fn start(prop: &str, tier: &str, level: &str) {
    *CONTEXT.lock().unwrap() = Some((prop.to_string(), tier.to_string(), level.to_string(), String::new()));
    let limit = Duration::from_secs(std::env::var("VERIF_HANG_S").ok().and_then(|x| x.parse().ok()).unwrap_or(if tier == "quick" { 20 } else { 90 }));
    // backstop: a check that is still running long after its budget (harness code that is pathologically slow on this
    // tree) ends as a machinery failure instead of running for hours
    let started = Instant::now();
    let budget: u64 = std::env::var("VERIF_BUDGET_S").ok().and_then(|x| x.parse().ok()).unwrap_or(if tier == "quick" { 50 } else { 1200 });
    let hard = Duration::from_secs(budget * 3 + 120);
    std::thread::spawn(move || loop {
        std::thread::sleep(Duration::from_millis(500));
        if started.elapsed() > hard {
            eprintln!("MACHINERY FAILURE (not a verdict): the check is still running {} s after its start (budget {} s); giving up", started.elapsed().as_secs(), budget);
            std::process::exit(2);
        }
        let slots: Vec<_> = SLOTS.lock().unwrap().iter().cloned().collect();
        for s in slots {
            let (since, hist) = {
                let g = s.lock().unwrap();
                (g.since, g.hist.clone())
            };
            if let Some(t0) = since {
                if t0.elapsed() > limit {
                    report(hist, limit);
                }
            }
        }
    });
}

fn report(hist: Vec<Op>, limit: Duration) -> ! {
    let (prop, tier, level, scenario) = CONTEXT.lock().unwrap().clone().unwrap_or_default();
    let last = hist.last().map(|o| o.kind()).unwrap_or("?");
    let mut rep = crate::engine::Report::new(&prop, &tier, &level);
    rep.add_violations(vec![crate::engine::Violation {
        prop: prop.clone(),
        sig: format!("hang/{}", last),
        detail: format!(
            "a call into the library ({} or a probe that follows it) has not returned after {} s of computation and has not reached the device-call horizon either (history: {})",
            hist.last().map(|o| o.show()).unwrap_or_default(),
            limit.as_secs(),
            hist.iter().map(|o| o.show()).collect::<Vec<_>>().join("; ")
        ),
        scenario,
        hist,
        input: None,
    }]);
    for k in ["states", "transitions", "traces_validated_against_impl", "evaluations", "distinct_nontrivial"] {
        rep.cov(k, serde_json::json!(2)); // schema minimum; the run ended at the hung call
    }
    rep.cov("rule", serde_json::json!("the run was ended by the hang watchdog; nothing else is reported"));
    rep.cov("exhaustive", serde_json::json!(false));
    rep.cov("samples", serde_json::json!([{"hung_history": "see the violation"}]));
    rep.cov("capped", serde_json::json!("ended by the hang watchdog"));
    let code = rep.finish();
    std::process::exit(code);
}
