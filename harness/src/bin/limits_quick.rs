//! sdmmc-mc-limits-quick: C08 over the boundary configurations (quick tier)
use sdmmc_mc::limits::{explore, ExploreFn};

fn main() {
    sdmmc_mc::limits_main::main_with(vec![
        ((1, 1, 1), explore::<1, 1, 1> as ExploreFn),
        ((1, 2, 2), explore::<1, 2, 2> as ExploreFn),
        ((2, 1, 2), explore::<2, 1, 2> as ExploreFn),
        ((2, 2, 1), explore::<2, 2, 1> as ExploreFn),
        ((2, 2, 2), explore::<2, 2, 2> as ExploreFn),
        ((2, 2, 4), explore::<2, 2, 4> as ExploreFn),
        ((2, 2, 8), explore::<2, 2, 8> as ExploreFn),
        ((2, 3, 2), explore::<2, 3, 2> as ExploreFn),
        ((2, 8, 2), explore::<2, 8, 2> as ExploreFn),
        ((3, 2, 2), explore::<3, 2, 2> as ExploreFn),
        ((3, 3, 3), explore::<3, 3, 3> as ExploreFn),
        ((4, 4, 1), explore::<4, 4, 1> as ExploreFn),
        ((8, 2, 2), explore::<8, 2, 2> as ExploreFn),
        ((8, 8, 8), explore::<8, 8, 8> as ExploreFn),
    ]);
}
