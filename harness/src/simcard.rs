//! Byte-level SD card in SPI mode behind `embedded_hal::spi::SpiDevice`, with
//! a choice-point interface for card timing (E2) and a fault plan (C13).
//! Written from the SD Physical Layer Simplified Specification (SPI mode);
//! shares no code with the driver.

use std::cell::RefCell;
use std::collections::{BTreeMap, VecDeque};
use std::rc::Rc;

#[derive(Clone, Copy, Debug, PartialEq, Eq, Hash)]
pub enum Kind {
    V1Sdsc,
    V2Sdsc,
    V2Sdhc,
}

/// Choice points: the environment asks `pick(label, n)`; alternative 0 is the default.
#[derive(Clone, Debug, Default)]
pub struct Chooser {
    pub prefix: Vec<u8>,
    pub taken: Vec<(&'static str, u8, u8)>,
}

impl Chooser {
    pub fn with_prefix(prefix: Vec<u8>) -> Self {
        Chooser { prefix, taken: Vec::new() }
    }
    pub fn pick(&mut self, label: &'static str, n: u8) -> u8 {
        let i = self.taken.len();
        let c = if i < self.prefix.len() { self.prefix[i] } else { 0 };
        if c >= n {
            panic!("HARNESS: choice {} out of range {} at point {} ({}): replay diverged", c, n, i, label);
        }
        self.taken.push((label, n, c));
        c
    }
    pub fn deviations(&self) -> usize {
        self.taken.iter().filter(|t| t.2 != 0).count()
    }
}

/// Choice points beyond this index never deviate (a healthy conversation has well under 100; a conversation that
/// degenerates into thousands of retries would otherwise make the bounded search explode).
pub const MAX_DEVIATION_POINT: usize = 300;
pub static DEADLINE_HIT: std::sync::atomic::AtomicBool = std::sync::atomic::AtomicBool::new(false);
pub static CHOICE_POINT_CAP_HIT: std::sync::atomic::AtomicBool = std::sync::atomic::AtomicBool::new(false);

/// Deviation-bounded exploration of all choice sequences (iterative context bounding, adapted).
/// `run` executes one complete run with the given chooser and returns it back with a result; `each` judges the run and
/// says whether its deviations are worth exploring (false once the run itself is a counterexample).
pub fn explore_choices<R>(bound: usize, deadline: Option<std::time::Instant>, mut run: impl FnMut(Chooser) -> (Chooser, R), mut each: impl FnMut(&Chooser, R) -> bool) -> u64 {
    let mut stack: Vec<Vec<u8>> = vec![vec![]];
    let mut runs = 0u64;
    while let Some(prefix) = stack.pop() {
        if let Some(d) = deadline {
            if runs > 0 && std::time::Instant::now() >= d {
                DEADLINE_HIT.store(true, std::sync::atomic::Ordering::Relaxed);
                break;
            }
        }
        let plen = prefix.len();
        let (ch, r) = run(Chooser::with_prefix(prefix));
        runs += 1;
        let choices: Vec<u8> = ch.taken.iter().map(|t| t.2).collect();
        let alts: Vec<u8> = ch.taken.iter().map(|t| t.1).collect();
        if !each(&ch, r) {
            continue;
        }
        // children: deviate at any later point
        let mut dev_before = choices[..plen.min(choices.len())].iter().filter(|&&c| c != 0).count();
        if choices.len() > MAX_DEVIATION_POINT {
            CHOICE_POINT_CAP_HIT.store(true, std::sync::atomic::Ordering::Relaxed);
        }
        for i in plen..choices.len().min(MAX_DEVIATION_POINT) {
            if dev_before + 1 <= bound {
                for alt in 1..alts[i] {
                    let mut p = choices[..i].to_vec();
                    p.push(alt);
                    stack.push(p);
                }
            }
            if choices[i] != 0 {
                dev_before += 1;
            }
        }
    }
    runs
}

pub const NCR_MENU: [u32; 3] = [0, 1, 8];
pub const ACMD41_MENU: [u32; 3] = [0, 1, 3];
pub const TOKEN_DELAY_MENU: [u32; 3] = [0, 1, 200];
/// busy after a data block of a write: the driver's write time-out is 50 000 polls
pub const BUSY_WRITE_MENU: [u32; 4] = [0, 1, 64, 40_000];
/// busy after stop-transmission / the stop token: only the next command's 10 000-poll wait applies
pub const BUSY_MENU: [u32; 4] = [0, 1, 64, 9_000];

#[derive(Clone, Debug, PartialEq)]
pub enum Fault {
    None,
    /// from exchange number `at` on the card answers 0xFF forever
    Silent { at: u64 },
    /// from exchange `at` on the card holds the line low forever
    BusyForever { at: u64 },
    /// from exchange `at` on the card sends a fixed non-trivial byte cycle
    Garbage { at: u64 },
    /// flip these bit indices (over 512 data bytes then 2 CRC bytes) in the n-th data block the card sends
    FlipBits { nth_block: u32, bits: Vec<usize> },
    /// the n-th data response token the card sends is this byte
    DataResponse { nth: u32, token: u8 },
    /// CMD13 answers with these two bytes
    Status { r1: u8, r2: u8 },
    /// where the n-th data start token is due the card sends this byte
    BadStartToken { nth: u32, token: u8 },
    /// the SPI transaction with this index fails with a bus error
    SpiError { txn: u64 },
    /// ACMD41 never leaves idle state
    NeverReady,
}

#[derive(Clone, Debug, PartialEq, Eq)]
enum Rx {
    Idle,
    Cmd(Vec<u8>),
    /// waiting for a data start token from the host (single: 0xFE, multi: 0xFC / 0xFD)
    WriteToken { multi: bool, addr: u32 },
    WriteData { multi: bool, addr: u32, buf: Vec<u8> },
}

pub struct WireBlock {
    pub data: Vec<u8>,
    pub crc: [u8; 2],
}

pub struct Card {
    pub kind: Kind,
    pub csd: [u8; 16],
    pub capacity_blocks: u32,
    pub mem: BTreeMap<u32, [u8; 512]>,
    pub idle: bool,
    pub powered_up_cmd0: bool,
    pub crc_on: bool,
    pub app_cmd: bool,
    pub acmd41_left: Option<u32>,
    rx: Rx,
    out: VecDeque<(u8, bool)>,
    busy: u64,
    /// multi-block read in progress: next block to send
    streaming: Option<u32>,
    pub chooser: Chooser,
    pub exchanges: u64,
    pub txns: u64,
    pub horizon: u64,
    pub fault: Fault,
    pub data_blocks_sent: u32,
    pub data_responses_sent: u32,
    pub start_tokens_due: u32,
    /// start-token positions actually clocked out
    pub start_tokens_sent: u32,
    pub start_tokens_popped: u32,
    pub last_token_index_sent: Option<u32>,
    /// queue indices of the tokens that were clocked out while the host was waiting for one
    pub due_token_indices: Vec<u32>,
    /// every MISO byte actually driven during the current call (cleared by the harness)
    pub miso_log: Vec<u8>,
    /// every data block the card put on the wire (after corruption), for the C13 oracle
    pub wire: Vec<WireBlock>,
    /// raw (mosi, miso) stream for the protocol monitor
    pub trace: Option<Vec<(u8, u8)>>,
    /// passive protocol monitor fed with every exchanged byte pair (never influences the card)
    pub monitor: Option<Box<crate::spimon::Monitor>>,
    pub garbage_pos: usize,
    /// writes applied to memory: (block, data)
    pub writes: Vec<u32>,
    pub pre_erase: Option<u32>,
    /// command indices of every complete frame the host sent (tracked even while the card is dead)
    pub host_cmds: Vec<u8>,
    host_frame: Vec<u8>,
}

pub fn mem_default(block: u32) -> [u8; 512] {
    let mut b = [0u8; 512];
    for (i, x) in b.iter_mut().enumerate() {
        *x = (crate::util::mix64(((block as u64) << 16) | i as u64) >> 9) as u8;
    }
    b
}

fn crc16(data: &[u8]) -> u16 {
    crate::props::c19::ref_crc16(data)
}
fn crc7(data: &[u8]) -> u8 {
    crate::props::c19::ref_crc7(data)
}

/// Build a CSD register. v1 layout: C_SIZE (12 bit), C_SIZE_MULT (3 bit), READ_BL_LEN (4 bit).
pub fn csd_v1(c_size: u32, c_size_mult: u32, read_bl_len: u32) -> [u8; 16] {
    let mut c = [0u8; 16];
    c[0] = 0x00; // CSD_STRUCTURE = 0
    c[1] = 0x26;
    c[3] = 0x32;
    c[4] = 0x5F;
    c[5] = 0x50 | (read_bl_len as u8 & 0x0F);
    c[6] = 0x80 | ((c_size >> 10) as u8 & 0x03);
    c[7] = (c_size >> 2) as u8;
    c[8] = ((c_size & 0x03) as u8) << 6 | 0x2D;
    c[9] = 0xD8 | ((c_size_mult >> 1) as u8 & 0x03);
    c[10] = ((c_size_mult & 1) as u8) << 7 | 0x7F;
    c[11] = 0x80;
    c[12] = 0x0A;
    c[13] = 0x40;
    c[15] = crc7(&c[..15]);
    c
}

/// v2 layout: C_SIZE (22 bit).
pub fn csd_v2(c_size: u32) -> [u8; 16] {
    let mut c = [0u8; 16];
    c[0] = 0x40; // CSD_STRUCTURE = 1
    c[1] = 0x0E;
    c[3] = 0x32;
    c[4] = 0x5B;
    c[5] = 0x59;
    c[7] = (c_size >> 16) as u8 & 0x3F;
    c[8] = (c_size >> 8) as u8;
    c[9] = c_size as u8;
    c[10] = 0x7F;
    c[11] = 0x80;
    c[12] = 0x0A;
    c[13] = 0x40;
    c[15] = crc7(&c[..15]);
    c
}

/// Capacity in 512-byte blocks by the specification, chosen by CSD_STRUCTURE.
pub fn spec_capacity_blocks(csd: &[u8; 16]) -> u64 {
    match csd[0] >> 6 {
        0 => {
            let read_bl_len = (csd[5] & 0x0F) as u64;
            let c_size = (((csd[6] & 0x03) as u64) << 10) | ((csd[7] as u64) << 2) | ((csd[8] >> 6) as u64);
            let c_size_mult = (((csd[9] & 0x03) as u64) << 1) | ((csd[10] >> 7) as u64);
            let bytes = (c_size + 1) * (1u64 << (c_size_mult + 2)) * (1u64 << read_bl_len);
            bytes / 512
        }
        _ => {
            let c_size = (((csd[7] & 0x3F) as u64) << 16) | ((csd[8] as u64) << 8) | csd[9] as u64;
            (c_size + 1) * 1024
        }
    }
}

impl Card {
    pub fn new(kind: Kind, csd: [u8; 16]) -> Card {
        let cap = spec_capacity_blocks(&csd).min(u32::MAX as u64) as u32;
        Card {
            kind,
            csd,
            capacity_blocks: cap,
            mem: BTreeMap::new(),
            idle: true,
            powered_up_cmd0: false,
            crc_on: false,
            app_cmd: false,
            acmd41_left: None,
            rx: Rx::Idle,
            out: VecDeque::with_capacity(1200),
            busy: 0,
            streaming: None,
            chooser: Chooser::default(),
            exchanges: 0,
            txns: 0,
            horizon: 50_000_000,
            fault: Fault::None,
            data_blocks_sent: 0,
            data_responses_sent: 0,
            start_tokens_due: 0,
            start_tokens_sent: 0,
            start_tokens_popped: 0,
            last_token_index_sent: None,
            due_token_indices: Vec::new(),
            miso_log: Vec::with_capacity(16500),
            wire: Vec::new(),
            trace: None,
            monitor: None,
            garbage_pos: 0,
            writes: Vec::new(),
            pre_erase: None,
            host_cmds: Vec::new(),
            host_frame: Vec::new(),
        }
    }

    /// The misbehaviour ends. A command frame the card had only partly received when it froze is forgotten (on a real
    /// card the chip-select edge between two host transactions does that).
    pub fn heal(&mut self) {
        self.fault = Fault::None;
        if matches!(self.rx, Rx::Cmd(_)) {
            self.rx = Rx::Idle;
        }
        self.horizon = self.exchanges + 50_000_000;
    }

    /// A card that has already been identified (for sweeps that skip initialisation).
    pub fn new_ready(kind: Kind, csd: [u8; 16], crc_on: bool) -> Card {
        let mut c = Card::new(kind, csd);
        c.idle = false;
        c.powered_up_cmd0 = true;
        c.crc_on = crc_on;
        c
    }

    pub fn get(&self, block: u32) -> [u8; 512] {
        self.mem.get(&block).cloned().unwrap_or_else(|| mem_default(block))
    }

    fn r1(&self) -> u8 {
        if self.idle {
            0x01
        } else {
            0x00
        }
    }

    fn ncr(&mut self) -> u32 {
        NCR_MENU[self.chooser.pick("N_CR", NCR_MENU.len() as u8) as usize]
    }

    fn respond(&mut self, bytes: &[u8]) {
        let n = self.ncr();
        for _ in 0..n {
            self.out.push_back((0xFF, false));
        }
        self.out.extend(bytes.iter().map(|b| (*b, false)));
    }

    fn addr_to_block(&self, arg: u32) -> Option<u32> {
        let b = match self.kind {
            Kind::V2Sdhc => arg,
            _ => {
                if arg % 512 != 0 {
                    return None;
                }
                arg / 512
            }
        };
        if b < self.capacity_blocks {
            Some(b)
        } else {
            None
        }
    }

    fn queue_data_block(&mut self, data: &[u8]) {
        let d = TOKEN_DELAY_MENU[self.chooser.pick("data-token-delay", TOKEN_DELAY_MENU.len() as u8) as usize];
        for _ in 0..d {
            self.out.push_back((0xFF, false));
        }
        let nth = self.start_tokens_due;
        self.start_tokens_due += 1;
        if let Fault::BadStartToken { nth: n, token } = self.fault {
            if n == nth {
                self.out.push_back((token, true));
                return;
            }
        }
        self.out.push_back((0xFE, true));
        let mut payload = data.to_vec();
        let crc = crc16(data).to_be_bytes();
        payload.extend_from_slice(&crc);
        if let Fault::FlipBits { nth_block, bits } = &self.fault {
            if *nth_block == self.data_blocks_sent {
                for &b in bits {
                    if b / 8 < payload.len() {
                        payload[b / 8] ^= 0x80 >> (b % 8);
                    }
                }
            }
        }
        self.data_blocks_sent += 1;
        self.out.extend(payload.iter().map(|b| (*b, false)));
    }

    fn busy_choice(&mut self, label: &'static str) {
        let menu = if label == "busy-after-write" { &BUSY_WRITE_MENU } else { &BUSY_MENU };
        self.busy = menu[self.chooser.pick(label, menu.len() as u8) as usize] as u64;
    }

    fn command(&mut self, f: &[u8]) {
        let cmd = f[0] & 0x3F;
        let arg = u32::from_be_bytes([f[1], f[2], f[3], f[4]]);
        let crc_ok = f[5] == crc7(&f[..5]);
        let was_app = self.app_cmd;
        self.app_cmd = false;
        // a command ends any multi-block read
        let was_streaming = self.streaming.take().is_some();
        if cmd == 12 {
            self.out.clear();
            self.out.push_back((0xFF, false)); // stuff byte
            let r = self.r1();
            self.respond(&[r]);
            if was_streaming {
                self.busy_choice("busy-after-stop");
            }
            return;
        }
        self.out.clear();
        if (self.crc_on || cmd == 0 || cmd == 8) && !crc_ok {
            let r = self.r1() | 0x08;
            self.respond(&[r]);
            return;
        }
        if !self.powered_up_cmd0 && cmd != 0 {
            // not yet in SPI mode: the card does not answer
            return;
        }
        if !(cmd == 25 || cmd == 55 || (was_app && cmd == 23)) {
            // the pre-erase announcement only applies to the multi-block write that directly follows it
            self.pre_erase = None;
        }
        match (was_app, cmd) {
            (_, 0) => {
                self.powered_up_cmd0 = true;
                self.idle = true;
                self.crc_on = false;
                self.acmd41_left = None;
                self.rx = Rx::Idle;
                self.respond(&[0x01]);
            }
            (_, 59) => {
                self.crc_on = arg & 1 != 0;
                let r = self.r1();
                self.respond(&[r]);
            }
            (_, 8) => {
                if self.kind == Kind::V1Sdsc {
                    let r = self.r1() | 0x04;
                    self.respond(&[r]);
                } else {
                    let r = self.r1();
                    self.respond(&[r, 0x00, 0x00, (arg >> 8) as u8 & 0x0F, arg as u8]);
                }
            }
            (_, 55) => {
                self.app_cmd = true;
                let r = self.r1();
                self.respond(&[r]);
            }
            (true, 41) => {
                if self.fault == Fault::NeverReady {
                    self.respond(&[0x01]);
                    return;
                }
                let left = match self.acmd41_left {
                    Some(n) => n,
                    None => ACMD41_MENU[self.chooser.pick("acmd41-idle-iterations", ACMD41_MENU.len() as u8) as usize],
                };
                if left == 0 {
                    self.idle = false;
                    self.acmd41_left = Some(0);
                    self.respond(&[0x00]);
                } else {
                    self.acmd41_left = Some(left - 1);
                    self.respond(&[0x01]);
                }
            }
            (true, 23) => {
                self.pre_erase = Some(arg);
                let r = self.r1();
                self.respond(&[r]);
            }
            (_, 58) => {
                let r = self.r1();
                let ocr0 = if self.idle { 0x00 } else if self.kind == Kind::V2Sdhc { 0xC0 } else { 0x80 };
                self.respond(&[r, ocr0, 0xFF, 0x80, 0x00]);
            }
            _ if self.idle => {
                // only the identification commands are legal in idle state
                self.respond(&[0x05]);
            }
            (_, 9) => {
                self.respond(&[0x00]);
                let csd = self.csd;
                self.queue_data_block(&csd);
            }
            (_, 13) => {
                if let Fault::Status { r1, r2 } = self.fault {
                    self.respond(&[r1, r2]);
                } else {
                    self.respond(&[0x00, 0x00]);
                }
            }
            (_, 17) => match self.addr_to_block(arg) {
                Some(b) => {
                    self.respond(&[0x00]);
                    let d = self.get(b);
                    self.queue_data_block(&d);
                }
                None => self.respond(&[0x40]),
            },
            (_, 18) => match self.addr_to_block(arg) {
                Some(b) => {
                    self.respond(&[0x00]);
                    self.streaming = Some(b);
                }
                None => self.respond(&[0x40]),
            },
            (_, 24) | (_, 25) => match self.addr_to_block(arg) {
                Some(b) => {
                    self.respond(&[0x00]);
                    if cmd == 25 {
                        // the blocks announced with ACMD23 are erased before the data arrives; whatever of
                        // them the host then does not write keeps the erased contents
                        if let Some(n) = self.pre_erase.take() {
                            for k in b..b.saturating_add(n.min(1 << 16)).min(self.capacity_blocks) {
                                self.mem.insert(k, [0xEE; 512]);
                            }
                        }
                    }
                    self.rx = Rx::WriteToken { multi: cmd == 25, addr: b };
                }
                None => self.respond(&[0x40]),
            },
            _ => {
                let r = self.r1() | 0x04;
                self.respond(&[r]);
            }
        }
    }

    /// One byte in each direction.
    pub fn exchange(&mut self, mosi: u8) -> u8 {
        let n = self.exchanges;
        self.exchanges += 1;
        if self.exchanges > self.horizon {
            panic!("HORIZON");
        }
        // passive bookkeeping of host command frames (does not influence the card)
        if !self.host_frame.is_empty() || (mosi & 0xC0 == 0x40 && matches!(self.rx, Rx::Idle | Rx::Cmd(_))) {
            self.host_frame.push(mosi);
            if self.host_frame.len() == 6 {
                self.host_cmds.push(self.host_frame[0] & 0x3F);
                self.host_frame.clear();
            }
        }
        let miso = self.exchange_inner(mosi, n);
        self.miso_log.push(miso);
        if self.miso_log.len() > 16384 {
            self.miso_log.drain(..8192);
        }
        if let Some(t) = self.trace.as_mut() {
            t.push((mosi, miso));
        }
        if let Some(m) = self.monitor.as_mut() {
            m.feed(mosi, miso);
        }
        miso
    }

    fn exchange_inner(&mut self, mosi: u8, n: u64) -> u8 {
        match self.fault {
            Fault::Silent { at } if n >= at => return 0xFF,
            Fault::BusyForever { at } if n >= at => return 0x00,
            Fault::Garbage { at } if n >= at => {
                const CYCLE: [u8; 7] = [0x5A, 0x00, 0xFE, 0x13, 0xFF, 0x05, 0xE5];
                self.garbage_pos += 1;
                return CYCLE[self.garbage_pos % CYCLE.len()];
            }
            _ => {}
        }
        // multi-block read: the next block is produced when the host clocks and nothing else is pending
        if self.out.is_empty() && self.busy == 0 {
            if let Some(b) = self.streaming {
                if b < self.capacity_blocks {
                    let d = self.get(b);
                    self.queue_data_block(&d);
                    self.streaming = Some(b + 1);
                } else {
                    self.streaming = None;
                }
            }
        }
        // what the card drives this clock: queued output, else busy, else idle-high
        let miso = if let Some((b, is_token)) = self.out.pop_front() {
            // counts only when the host is just clocking (a token popped under a command frame is not "due")
            if is_token && mosi == 0xFF && self.rx == Rx::Idle {
                self.start_tokens_sent += 1;
                self.last_token_index_sent = Some(self.start_tokens_popped);
                self.due_token_indices.push(self.start_tokens_popped);
            }
            if is_token {
                self.start_tokens_popped += 1;
            }
            b
        } else if self.busy > 0 {
            self.busy -= 1;
            0x00
        } else {
            0xFF
        };
        // what the card receives
        let rx = std::mem::replace(&mut self.rx, Rx::Idle);
        self.rx = match rx {
            Rx::Idle => {
                if mosi & 0xC0 == 0x40 {
                    Rx::Cmd(vec![mosi])
                } else {
                    Rx::Idle
                }
            }
            Rx::Cmd(mut v) => {
                v.push(mosi);
                if v.len() == 6 {
                    self.rx = Rx::Idle;
                    self.command(&v);
                    std::mem::replace(&mut self.rx, Rx::Idle)
                } else {
                    Rx::Cmd(v)
                }
            }
            Rx::WriteToken { multi, addr } => {
                if mosi == 0xFF {
                    Rx::WriteToken { multi, addr }
                } else if (!multi && mosi == 0xFE) || (multi && mosi == 0xFC) {
                    Rx::WriteData { multi, addr, buf: Vec::with_capacity(514) }
                } else if multi && mosi == 0xFD {
                    self.busy_choice("busy-after-stop-token");
                    // one byte of gap before busy is visible
                    Rx::Idle
                } else if mosi & 0xC0 == 0x40 {
                    Rx::Cmd(vec![mosi])
                } else {
                    Rx::WriteToken { multi, addr }
                }
            }
            Rx::WriteData { multi, addr, mut buf } => {
                buf.push(mosi);
                if buf.len() == 514 {
                    let crc_ok = !self.crc_on || crc16(&buf[..512]).to_be_bytes() == [buf[512], buf[513]];
                    let nth = self.data_responses_sent;
                    self.data_responses_sent += 1;
                    let mut token = if crc_ok { 0xE5 } else { 0xEB };
                    if let Fault::DataResponse { nth: k, token: t } = self.fault {
                        if k == nth {
                            token = t;
                        }
                    }
                    self.out.clear();
                    self.out.push_back((token, false));
                    if token & 0x1F == 0x05 && addr < self.capacity_blocks {
                        let mut d = [0u8; 512];
                        d.copy_from_slice(&buf[..512]);
                        self.mem.insert(addr, d);
                        self.writes.push(addr);
                    }
                    self.busy_choice("busy-after-write");
                    if multi {
                        Rx::WriteToken { multi, addr: addr + 1 }
                    } else {
                        Rx::Idle
                    }
                } else {
                    Rx::WriteData { multi, addr, buf }
                }
            }
        };
        miso
    }
}

#[derive(Debug, Clone, Copy, PartialEq, Eq)]
pub struct SpiErr;

impl embedded_hal::spi::Error for SpiErr {
    fn kind(&self) -> embedded_hal::spi::ErrorKind {
        embedded_hal::spi::ErrorKind::Other
    }
}

/// The SPI device handed to the driver; cloning shares the card.
#[derive(Clone)]
pub struct SimSpi(pub Rc<RefCell<Card>>);

impl embedded_hal::spi::ErrorType for SimSpi {
    type Error = SpiErr;
}

impl embedded_hal::spi::SpiDevice<u8> for SimSpi {
    fn transaction(&mut self, operations: &mut [embedded_hal::spi::Operation<'_, u8>]) -> Result<(), SpiErr> {
        use embedded_hal::spi::Operation as O;
        let mut c = self.0.borrow_mut();
        let t = c.txns;
        c.txns += 1;
        if let Fault::SpiError { txn } = c.fault {
            if txn == t {
                return Err(SpiErr);
            }
        }
        for op in operations.iter_mut() {
            match op {
                O::Read(buf) => {
                    for b in buf.iter_mut() {
                        *b = c.exchange(0xFF);
                    }
                }
                O::Write(buf) => {
                    for b in buf.iter() {
                        c.exchange(*b);
                    }
                }
                O::Transfer(rd, wr) => {
                    let n = rd.len().max(wr.len());
                    for i in 0..n {
                        let o = if i < wr.len() { wr[i] } else { 0xFF };
                        let r = c.exchange(o);
                        if i < rd.len() {
                            rd[i] = r;
                        }
                    }
                }
                O::TransferInPlace(buf) => {
                    for b in buf.iter_mut() {
                        *b = c.exchange(*b);
                    }
                }
                O::DelayNs(_) => {}
            }
        }
        Ok(())
    }
}

pub struct NoDelay;

impl embedded_hal::delay::DelayNs for NoDelay {
    fn delay_ns(&mut self, _ns: u32) {}
}
