//! E1: level-synchronous history BFS with fingerprint de-duplication over the
//! real code, plus the shared violation / known-finding / evidence plumbing.

use crate::refat::{self, FatBase, Vol};
use crate::simdisk::{BaseImage, Rd};
use crate::util::{par_map, Fp};
use crate::world::{Front, Model, Op, Step, World, WorldCfg};
use serde_json::{json, Value};
use std::collections::{BTreeMap, HashSet};
use std::sync::Arc;
use std::time::Instant;

#[derive(Clone, Debug)]
pub struct Violation {
    pub prop: String,
    /// stable cause signature, e.g. "leak/delete_file/chain-still-allocated"
    pub sig: String,
    pub detail: String,
    pub scenario: String,
    pub hist: Vec<Op>,
    /// free-form replay payload for non-history checks
    pub input: Option<Value>,
}

/// Per-partition context for the oracles.
pub struct VolCtx {
    pub slot: usize,
    pub vol: Vol,
    pub fat0: Vec<FatBase>, // per FAT copy
}

impl VolCtx {
    pub fn fat(&self, img: &crate::simdisk::Image, copy: u32) -> Vec<u32> {
        refat::read_fat_patched(img, &self.vol, copy, &self.fat0[copy as usize])
    }
}

pub struct Scenario {
    pub name: String,
    pub cfg: Arc<WorldCfg>,
    pub prelude: Vec<Op>,
    /// fixed long histories that are stepped through once with every oracle (beyond the depth the BFS reaches)
    pub scripts: Vec<(String, Vec<Op>)>,
    pub alphabet: Vec<Op>,
    pub depth: usize,
    pub vols: Vec<VolCtx>,
    /// optional extra filter on enabled operations
    pub filter: Option<Box<dyn Fn(&World, &Op) -> bool + Sync + Send>>,
    /// scenario parameters for oracles that need to build a twin scenario
    pub tag: Option<Arc<dyn std::any::Any + Send + Sync>>,
}

pub fn vol_ctxs(base: &BaseImage) -> Vec<VolCtx> {
    let mut out = Vec::new();
    for slot in 0..4 {
        if let Ok(v) = refat::locate(base, slot) {
            let fat0 = (0..v.nfats)
                .map(|c| FatBase {
                    raw: refat::read_fat(base, &v, c),
                })
                .collect();
            out.push(VolCtx { slot, vol: v, fat0 });
        }
    }
    out
}

pub fn make_cfg(base: BaseImage, front: Front, moving_clock: bool) -> Arc<WorldCfg> {
    let model0 = Model::from_image(&base);
    Arc::new(WorldCfg {
        base: Arc::new(base),
        model0,
        front,
        id_offset: 5000,
        moving_clock,
        horizon: 2_000_000,
    })
}

impl Scenario {
    pub fn new(name: &str, cfg: Arc<WorldCfg>, prelude: Vec<Op>, alphabet: Vec<Op>, depth: usize) -> Scenario {
        let vols = vol_ctxs(&cfg.base);
        Scenario {
            name: name.to_string(),
            cfg,
            prelude,
            scripts: Vec::new(),
            alphabet,
            depth,
            vols,
            filter: None,
            tag: None,
        }
    }
    pub fn vol(&self, slot: usize) -> &VolCtx {
        self.vols.iter().find(|v| v.slot == slot).expect("no such volume in scenario")
    }
    /// Fresh world with prelude + history replayed (no observation).
    pub fn replay(&self, hist: &[Op]) -> World {
        let mut w = World::new(self.cfg.clone());
        w.trace_base = self.prelude.len();
        for op in self.prelude.iter().chain(hist.iter()) {
            if w.dead {
                break;
            }
            assert!(w.enabled(op), "replay: op {:?} not enabled (non-deterministic replay?)", op);
            w.apply(*op, false);
        }
        w
    }
    /// Replay `hist[..n-1]` silently and the last op observed.
    pub fn replay_observed(&self, hist: &[Op]) -> (World, Step) {
        let (last, pre) = hist.split_last().expect("empty history");
        let mut w = self.replay(pre);
        let st = w.apply(*last, true);
        (w, st)
    }
}

pub trait Oracle: Sync {
    /// Judge the last transition of `hist` (already executed: `w` is the post state).
    fn check(&self, sc: &Scenario, hist: &[Op], w: &World, st: &Step, out: &mut Vec<Violation>);
    /// Called once per newly discovered state (optional extra probes).
    fn on_new_state(&self, _sc: &Scenario, _hist: &[Op], _w: &World, _out: &mut Vec<Violation>) {}
}

#[derive(Default, Clone)]
pub struct Stats {
    pub states: u64,
    pub transitions: u64,
    pub replays: u64,
    pub pruned: u64,
    pub levels: Vec<(usize, u64, u64)>, // (level, new states, transitions)
    pub outcomes: BTreeMap<String, u64>, // "op kind: result class" -> count
    pub samples: Vec<Value>,
    pub capped: Option<String>,
    pub max_depth: usize,
    pub wall_s: f64,
}

impl Stats {
    pub fn merge(&mut self, o: &Stats) {
        self.states += o.states;
        self.transitions += o.transitions;
        self.replays += o.replays;
        self.pruned += o.pruned;
        for (k, v) in &o.outcomes {
            *self.outcomes.entry(k.clone()).or_insert(0) += v;
        }
        for s in &o.samples {
            if self.samples.len() < 12 {
                self.samples.push(s.clone());
            }
        }
        if self.capped.is_none() {
            self.capped = o.capped.clone();
        }
        self.max_depth = self.max_depth.max(o.max_depth);
    }
}

pub struct Limits {
    pub max_states: u64,
    pub deadline: Option<Instant>,
}

impl Default for Limits {
    fn default() -> Self {
        Limits {
            max_states: 3_000_000,
            deadline: None,
        }
    }
}

struct Expansion {
    op: Op,
    fp: Fp,
    outcome: String,
    viols: Vec<Violation>,
    prune: bool,
    new_state_viols: Option<Vec<Violation>>,
}

pub fn hist_json(sc: &Scenario, hist: &[Op]) -> Value {
    json!({
        "scenario": sc.name,
        "ops": hist.iter().map(|o| o.show()).collect::<Vec<_>>(),
    })
}

/// Breadth-first exploration. Returns stats and all violations (deduplicated by signature, first = shortest).
pub fn bfs(sc: &Scenario, oracles: &[&dyn Oracle], lim: &Limits) -> (Stats, Vec<Violation>) {
    let mut stats = Stats::default();
    let t_start = Instant::now();
    let mut viols: Vec<Violation> = Vec::new();
    let mut seen: HashSet<Fp> = HashSet::new();
    if let Some((sig, detail)) = prelude_failure(sc) {
        // the fixed opening moves of the scenario (mount, open the directories) do not do on this tree what the
        // reference model says: that is a verdict about the code, not a failure of the machinery
        stats.capped = Some("the scenario's prelude fails on this tree; nothing explored".into());
        viols.push(viol("?", sig, detail, sc, &[]));
        return (stats, viols);
    }
    let w0 = sc.replay(&[]);
    seen.insert(w0.fingerprint());
    stats.states = 1;
    let mut frontier: Vec<Vec<Op>> = vec![vec![]];
    for level in 1..=sc.depth {
        if frontier.is_empty() {
            break;
        }
        if let Some(d) = lim.deadline {
            if Instant::now() > d {
                stats.capped = Some(format!("wall-clock cap hit before level {}", level));
                break;
            }
        }
        let check_new = level <= sc.depth;
        let skipped = std::sync::atomic::AtomicBool::new(false);
        let results: Vec<(Vec<Expansion>, u64)> = par_map(frontier.len(), |i| {
            let hist = &frontier[i];
            let mut out = Vec::new();
            let mut replays = 1u64;
            if let Some(d) = lim.deadline {
                if Instant::now() > d {
                    skipped.store(true, std::sync::atomic::Ordering::Relaxed);
                    return (out, 0);
                }
            }
            let w = sc.replay(hist);
            let ops: Vec<Op> = sc
                .alphabet
                .iter()
                .filter(|op| w.enabled(op) && sc.filter.as_ref().map(|f| f(&w, op)).unwrap_or(true))
                .cloned()
                .collect();
            drop(w);
            for op in ops {
                let mut h2 = hist.clone();
                h2.push(op);
                let (w2, st) = sc.replay_observed(&h2);
                replays += 1;
                let mut v = Vec::new();
                for o in oracles {
                    o.check(sc, &h2, &w2, &st, &mut v);
                }
                let prune = w2.dead || w2.m.diverged;
                let fp = if prune { Fp(0, 0) } else { w2.fingerprint() };
                out.push(Expansion {
                    op,
                    fp,
                    outcome: format!("{}: {}", op.kind(), outcome_class(&st)),
                    viols: v,
                    prune,
                    new_state_viols: None,
                });
                let _ = check_new;
            }
            (out, replays)
        });
        let mut next: Vec<Vec<Op>> = Vec::new();
        let mut new_states = 0u64;
        let mut transitions = 0u64;
        for (i, (exps, replays)) in results.into_iter().enumerate() {
            stats.replays += replays;
            for e in exps {
                transitions += 1;
                *stats.outcomes.entry(e.outcome).or_insert(0) += 1;
                for v in e.viols {
                    if !viols.iter().any(|x| x.sig == v.sig && x.prop == v.prop) {
                        viols.push(v);
                    }
                }
                let _ = e.new_state_viols;
                if e.prune {
                    stats.pruned += 1;
                    continue;
                }
                if seen.insert(e.fp) {
                    new_states += 1;
                    let mut h2 = frontier[i].clone();
                    h2.push(e.op);
                    if stats.samples.len() < 6 && (new_states % 97 == 1) {
                        stats.samples.push(hist_json(sc, &h2));
                    }
                    next.push(h2);
                }
            }
        }
        stats.states += new_states;
        stats.transitions += transitions;
        stats.levels.push((level, new_states, transitions));
        stats.max_depth = level;
        if skipped.load(std::sync::atomic::Ordering::Relaxed) {
            stats.capped = Some(format!("wall-clock cap hit inside level {} (level incomplete; complete below it)", level));
            stats.max_depth = level - 1;
            break;
        }
        // new-state probes (run on the representatives)
        if !next.is_empty() && oracles.iter().any(|_| true) {
            let probe: Vec<Vec<Violation>> = par_map(next.len(), |i| {
                let w = sc.replay(&next[i]);
                let mut v = Vec::new();
                for o in oracles {
                    o.on_new_state(sc, &next[i], &w, &mut v);
                }
                v
            });
            for pv in probe {
                for v in pv {
                    if !viols.iter().any(|x| x.sig == v.sig && x.prop == v.prop) {
                        viols.push(v);
                    }
                }
            }
        }
        if stats.states > lim.max_states {
            stats.capped = Some(format!("state cap {} hit at level {}", lim.max_states, level));
            break;
        }
        frontier = next;
    }
    stats.wall_s = t_start.elapsed().as_secs_f64();
    (stats, viols)
}

fn outcome_class(st: &Step) -> String {
    use crate::world::Res;
    match &st.res {
        Res::Ok => "Ok".into(),
        Res::Data(d) => {
            if d.is_empty() {
                "Ok(0 bytes)".into()
            } else {
                "Ok(data)".into()
            }
        }
        Res::Filled(_, e) => format!("Filled/{:?}", e),
        Res::Listing(_) => "Listing".into(),
        Res::Found(_) => "Found".into(),
        Res::Err(e) => format!("Err({:?})", e),
        Res::Panic(_) => "Panic".into(),
    }
}

// ---------------------------------------------------------------------------
// Known findings, reporting, evidence
// ---------------------------------------------------------------------------

pub struct Known {
    pub entries: Vec<(String, String, String)>, // (property, signature, what)
}

pub fn verif_dir() -> std::path::PathBuf {
    std::env::var("VERIF_DIR").map(Into::into).unwrap_or_else(|_| "/verif".into())
}

pub fn load_known() -> Known {
    let p = verif_dir().join("known_findings.json");
    let mut entries = Vec::new();
    if let Ok(s) = std::fs::read_to_string(&p) {
        let v: Value = serde_json::from_str(&s).unwrap_or_else(|e| {
            eprintln!("MACHINERY: cannot parse {}: {}", p.display(), e);
            std::process::exit(2)
        });
        if let Some(a) = v.get("known").and_then(|x| x.as_array()) {
            for e in a {
                entries.push((
                    e["property"].as_str().unwrap_or("").to_string(),
                    e["signature"].as_str().unwrap_or("").to_string(),
                    e["what"].as_str().unwrap_or("").to_string(),
                ));
            }
        }
    }
    Known { entries }
}

pub struct Report {
    pub prop: String,
    pub tier: String,
    pub level: String,
    pub start: Instant,
    pub coverage: serde_json::Map<String, Value>,
    pub assumptions: Vec<String>,
    pub violations: Vec<Violation>,
}

impl Report {
    pub fn new(prop: &str, tier: &str, level: &str) -> Report {
        Report {
            prop: prop.to_string(),
            tier: tier.to_string(),
            level: level.to_string(),
            start: Instant::now(),
            coverage: serde_json::Map::new(),
            assumptions: Vec::new(),
            violations: Vec::new(),
        }
    }
    pub fn cov(&mut self, k: &str, v: Value) {
        self.coverage.insert(k.to_string(), v);
    }
    pub fn add_stats(&mut self, label: &str, s: &Stats) {
        let add = |m: &mut serde_json::Map<String, Value>, k: &str, n: u64| {
            let cur = m.get(k).and_then(|x| x.as_u64()).unwrap_or(0);
            m.insert(k.to_string(), json!(cur + n));
        };
        add(&mut self.coverage, "states", s.states);
        add(&mut self.coverage, "transitions", s.transitions);
        add(&mut self.coverage, "traces_validated_against_impl", s.transitions);
        add(&mut self.coverage, "replays_of_real_code", s.replays);
        add(&mut self.coverage, "pruned_after_divergence", s.pruned);
        let scen = self.coverage.entry("scenarios".to_string()).or_insert_with(|| json!([]));
        scen.as_array_mut().unwrap().push(json!({
            "scenario": label,
            "states": s.states,
            "transitions": s.transitions,
            "levels": s.levels.iter().map(|(l,n,t)| json!({"depth":l,"new_states":n,"transitions":t})).collect::<Vec<_>>(),
            "max_depth": s.max_depth,
            "capped": s.capped,
            "wall_s": s.wall_s,
            "outcomes": s.outcomes,
        }));
        let samples = self.coverage.entry("samples".to_string()).or_insert_with(|| json!([]));
        for x in &s.samples {
            if samples.as_array().unwrap().len() < 10 {
                samples.as_array_mut().unwrap().push(x.clone());
            }
        }
        if s.capped.is_some() {
            self.coverage.insert("exhaustive".into(), json!(false));
        }
    }
    pub fn add_violations(&mut self, v: Vec<Violation>) {
        for x in v {
            if !self.violations.iter().any(|y| y.sig == x.sig && y.prop == x.prop && y.scenario == x.scenario) {
                self.violations.push(x);
            }
        }
    }

    /// Print VIOLATION / KNOWN-FINDING lines, write replays and evidence, return the exit code.
    pub fn finish(mut self) -> i32 {
        if DEADLINE_CUT.load(std::sync::atomic::Ordering::Relaxed) {
            self.cov("capped", serde_json::json!("wall-clock budget reached inside an oracle (remaining crash images of some transitions were not judged)"));
            self.cov("exhaustive", serde_json::json!(false));
        }
        if crate::util::DEBUG_PANICKED.load(std::sync::atomic::Ordering::Relaxed) {
            self.cov("state_fingerprint_degraded", serde_json::json!("the Debug output of the VolumeManager panicked or no longer shows the cached chain position; states were told apart by medium, model and whatever Debug still shows"));
        }
        let known = load_known();
        let dir = verif_dir();
        let _ = std::fs::create_dir_all(dir.join("evidence"));
        let _ = std::fs::create_dir_all(dir.join("replays"));
        let mut new_viol = 0;
        let mut known_hits = Vec::new();
        // one line per distinct signature
        let mut seen_sig: Vec<String> = Vec::new();
        for v in &self.violations {
            if seen_sig.contains(&v.sig) {
                continue;
            }
            seen_sig.push(v.sig.clone());
            if let Some(k) = known.entries.iter().find(|k| k.0 == v.prop && k.1 == v.sig) {
                println!("KNOWN-FINDING: property={} {} [{}]", v.prop, k.2, v.sig);
                known_hits.push(v.sig.clone());
                continue;
            }
            new_viol += 1;
            let fp = crate::util::fp_of_bytes(format!("{}|{}", v.sig, v.scenario).as_bytes());
            let path = dir.join("replays").join(format!("{}-{:016x}.json", v.prop, fp.0));
            let body = json!({
                "property": v.prop,
                "signature": v.sig,
                "detail": v.detail,
                "scenario": v.scenario,
                "history": v.hist.iter().map(|o| o.to_json()).collect::<Vec<_>>(),
                "history_text": v.hist.iter().map(|o| o.show()).collect::<Vec<_>>(),
                "input": v.input,
            });
            let _ = std::fs::write(&path, serde_json::to_string_pretty(&body).unwrap());
            println!("VIOLATION property={} replay={}", v.prop, path.display());
            println!("  signature: {}", v.sig);
            println!("  detail: {}", v.detail);
        }
        if !self.coverage.contains_key("exhaustive") {
            self.coverage.insert("exhaustive".into(), json!(true));
        }
        if !self.coverage.contains_key("samples") {
            self.coverage.insert("samples".into(), json!([]));
        }
        self.coverage.insert("known_findings_seen".into(), json!(known_hits));
        let seed: i64 = std::env::var("VERIF_SEED").ok().and_then(|s| s.parse().ok()).unwrap_or(0);
        let ev = json!({
            "property_id": self.prop,
            "tier": self.tier,
            "seed": seed,
            "level": self.level,
            "coverage": Value::Object(self.coverage),
            "assumptions": self.assumptions,
            "wall_s": self.start.elapsed().as_secs_f64(),
            "violations": new_viol,
        });
        let p = dir.join("evidence").join(format!("{}.json", self.prop));
        if let Err(e) = std::fs::write(&p, serde_json::to_string_pretty(&ev).unwrap()) {
            eprintln!("MACHINERY: cannot write evidence {}: {}", p.display(), e);
            return 2;
        }
        println!(
            "{} {}: violations={} known-findings={} wall={:.1}s",
            self.prop,
            self.tier,
            new_viol,
            known_hits.len(),
            self.start.elapsed().as_secs_f64()
        );
        if new_viol > 0 {
            1
        } else {
            0
        }
    }
}

pub fn machinery_fail(msg: &str) -> ! {
    eprintln!("MACHINERY FAILURE (not a verdict): {}", msg);
    std::process::exit(2)
}

/// Wall-clock deadline of the running check (set by the history driver); oracles with long inner loops (one remount
/// per crash image) stop judging further images once it has passed, so that a tree on which every image is
/// pathologically expensive cannot keep a check running for hours.
pub static GLOBAL_DEADLINE: std::sync::Mutex<Option<Instant>> = std::sync::Mutex::new(None);
pub static DEADLINE_CUT: std::sync::atomic::AtomicBool = std::sync::atomic::AtomicBool::new(false);

pub fn past_deadline() -> bool {
    let d = *GLOBAL_DEADLINE.lock().unwrap();
    match d {
        Some(t) if Instant::now() > t => {
            DEADLINE_CUT.store(true, std::sync::atomic::Ordering::Relaxed);
            true
        }
        _ => false,
    }
}

/// Does the scenario's prelude run as the model expects? If not: (signature, detail) of the first step that does not.
pub fn prelude_failure(sc: &Scenario) -> Option<(String, String)> {
    let mut w = World::new(sc.cfg.clone());
    for op in &sc.prelude {
        if !w.enabled(op) {
            return Some((format!("prelude/{}/not-possible", op.kind()), format!("prelude step {} cannot be issued", op.show())));
        }
        let st = w.apply(*op, false);
        if w.dead || w.m.diverged {
            let why = st.findings.first().map(|f| f.detail.clone()).unwrap_or_else(|| "the result differs from the reference model".into());
            return Some((format!("prelude/{}/{}", op.kind(), if matches!(st.res, crate::world::Res::Panic(_)) { "panic" } else if st.res.is_ok() { "wrong-result" } else { "error" }), format!("prelude step {} -> {}: {}", op.show(), st.res.class(), why)));
        }
    }
    None
}

pub fn viol(prop: &str, sig: String, detail: String, sc: &Scenario, hist: &[Op]) -> Violation {
    Violation {
        prop: prop.to_string(),
        sig,
        detail,
        scenario: sc.name.clone(),
        hist: hist.to_vec(),
        input: None,
    }
}

/// Dummy use to keep `Rd` import alive for downstream modules.
pub fn _rd(_: &dyn Rd) {}
