//! Small shared helpers: hashing, parallel map, panic capture.

use std::hash::{Hash, Hasher};
use std::panic::{catch_unwind, AssertUnwindSafe};

/// 128-bit fingerprint built from two independently keyed 64-bit hashes.
#[derive(Clone, Copy, PartialEq, Eq, Hash, PartialOrd, Ord, Debug)]
pub struct Fp(pub u64, pub u64);

pub struct FpHasher {
    a: std::collections::hash_map::DefaultHasher,
    b: std::collections::hash_map::DefaultHasher,
}

impl FpHasher {
    pub fn new() -> Self {
        #[allow(deprecated)]
        let mut a = std::collections::hash_map::DefaultHasher::new();
        #[allow(deprecated)]
        let mut b = std::collections::hash_map::DefaultHasher::new();
        0x5d6f_11c3_u64.hash(&mut a);
        0xa7c1_9e55_0badu64.hash(&mut b);
        FpHasher { a, b }
    }
    pub fn bytes(&mut self, x: &[u8]) {
        self.a.write(x);
        self.a.write_usize(x.len());
        self.b.write(x);
        self.b.write_usize(x.len());
    }
    pub fn u64(&mut self, x: u64) {
        self.a.write_u64(x);
        self.b.write_u64(x);
    }
    pub fn str(&mut self, s: &str) {
        self.bytes(s.as_bytes())
    }
    pub fn finish(&self) -> Fp {
        Fp(self.a.finish(), self.b.finish())
    }
}

pub fn fp_of_bytes(x: &[u8]) -> Fp {
    let mut h = FpHasher::new();
    h.bytes(x);
    h.finish()
}

/// 64-bit mixing function (splitmix64 finaliser); used for payload patterns.
#[inline]
pub fn mix64(mut z: u64) -> u64 {
    z = z.wrapping_add(0x9E37_79B9_7F4A_7C15);
    z = (z ^ (z >> 30)).wrapping_mul(0xBF58_476D_1CE4_E5B9);
    z = (z ^ (z >> 27)).wrapping_mul(0x94D0_49BB_1331_11EB);
    z ^ (z >> 31)
}

/// Result of running a closure that may panic inside the code under test.
pub enum Caught<T> {
    Ok(T),
    Panic(String),
}

/// Run `f`, catching a panic and returning its message.
pub fn catch<T>(f: impl FnOnce() -> T) -> Caught<T> {
    match catch_unwind(AssertUnwindSafe(f)) {
        Ok(v) => Caught::Ok(v),
        Err(e) => {
            let msg = if let Some(s) = e.downcast_ref::<&str>() {
                s.to_string()
            } else if let Some(s) = e.downcast_ref::<String>() {
                s.clone()
            } else {
                "<non-string panic>".to_string()
            };
            Caught::Panic(msg)
        }
    }
}

thread_local! {
    /// When set, the panic hook stays silent (we expect and catch panics of the subject).
    pub static QUIET_PANICS: std::cell::Cell<bool> = const { std::cell::Cell::new(false) };
}

pub fn install_panic_hook() {
    let default = std::panic::take_hook();
    std::panic::set_hook(Box::new(move |info| {
        if !QUIET_PANICS.with(|q| q.get()) {
            default(info);
        }
    }));
}

/// Catch a panic of the *subject* without printing it.
pub fn catch_quiet<T>(f: impl FnOnce() -> T) -> Caught<T> {
    let prev = QUIET_PANICS.with(|q| q.replace(true));
    crate::watchdog::enter();
    let r = catch(f);
    crate::watchdog::end();
    QUIET_PANICS.with(|q| q.set(prev));
    r
}

pub fn n_threads() -> usize {
    std::env::var("VERIF_THREADS")
        .ok()
        .and_then(|s| s.parse().ok())
        .unwrap_or_else(|| {
            std::thread::available_parallelism()
                .map(|n| n.get())
                .unwrap_or(4)
        })
        .max(1)
}

/// Deterministic parallel map over an indexed domain: result[i] = f(i). Work is
/// handed out in chunks from an atomic counter; results are stored by index so
/// the output does not depend on scheduling.
pub fn par_map<T: Send, F: Fn(usize) -> T + Sync>(n: usize, f: F) -> Vec<T> {
    use std::sync::atomic::{AtomicUsize, Ordering};
    let threads = n_threads().min(n.max(1));
    if threads <= 1 || n < 2 {
        return (0..n).map(f).collect();
    }
    let next = AtomicUsize::new(0);
    let chunk = (n / (threads * 8)).max(1);
    let mut parts: Vec<Vec<(usize, T)>> = Vec::new();
    std::thread::scope(|s| {
        let mut hs = Vec::new();
        for _ in 0..threads {
            hs.push(s.spawn(|| {
                let mut out = Vec::new();
                loop {
                    let start = next.fetch_add(chunk, Ordering::Relaxed);
                    if start >= n {
                        break;
                    }
                    for i in start..(start + chunk).min(n) {
                        out.push((i, f(i)));
                    }
                }
                out
            }));
        }
        for h in hs {
            match h.join() {
                Ok(v) => parts.push(v),
                Err(e) => std::panic::resume_unwind(e),
            }
        }
    });
    let mut slots: Vec<Option<T>> = (0..n).map(|_| None).collect();
    for p in parts {
        for (i, v) in p {
            slots[i] = Some(v);
        }
    }
    slots.into_iter().map(|x| x.expect("par_map hole")).collect()
}

/// Parallel fold over 0..n in `parts` contiguous ranges; combine in range order.
pub fn par_ranges<T: Send, F: Fn(u64, u64) -> T + Sync>(n: u64, parts: usize, f: F) -> Vec<T> {
    let parts = parts.max(1) as u64;
    let step = n.div_ceil(parts).max(1);
    let ranges: Vec<(u64, u64)> = (0..parts)
        .map(|i| (i * step, ((i + 1) * step).min(n)))
        .filter(|(a, b)| a < b)
        .collect();
    par_map(ranges.len(), |i| f(ranges[i].0, ranges[i].1))
}

pub fn hex(b: &[u8]) -> String {
    let mut s = String::with_capacity(b.len() * 2);
    for x in b {
        s.push_str(&format!("{:02x}", x));
    }
    s
}

pub fn le16(b: &[u8], o: usize) -> u16 {
    u16::from_le_bytes([b[o], b[o + 1]])
}
pub fn le32(b: &[u8], o: usize) -> u32 {
    u32::from_le_bytes([b[o], b[o + 1], b[o + 2], b[o + 3]])
}
pub fn put16(b: &mut [u8], o: usize, v: u16) {
    b[o..o + 2].copy_from_slice(&v.to_le_bytes());
}
pub fn put32(b: &mut [u8], o: usize, v: u32) {
    b[o..o + 4].copy_from_slice(&v.to_le_bytes());
}

/// `par_map` with a wall-clock deadline: items not started before the deadline are skipped (None).
pub fn par_map_until<T: Send, F: Fn(usize) -> T + Sync>(n: usize, deadline: std::time::Instant, f: F) -> Vec<Option<T>> {
    let g = |i: usize| if std::time::Instant::now() >= deadline { None } else { Some(f(i)) };
    par_map(n, g)
}

/// `format!("{:?}", x)` of a value of the *subject*; its Debug/Display code may panic after a change to the crate, which
/// must not take the harness down (the string only feeds the state fingerprint).
pub fn debug_string<T: core::fmt::Debug>(x: &T) -> String {
    match catch_quiet(|| format!("{:?}", x)) {
        Caught::Ok(s) => s,
        Caught::Panic(_) => {
            DEBUG_PANICKED.store(true, std::sync::atomic::Ordering::Relaxed);
            "<Debug formatting of the subject panicked>".to_string()
        }
    }
}
pub static DEBUG_PANICKED: std::sync::atomic::AtomicBool = std::sync::atomic::AtomicBool::new(false);
