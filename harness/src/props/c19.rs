//! C19 — CRC-7 and CRC-16 equal the SD specification's polynomials for every message.
//! The CRC-16 is checked as a 65 536-state machine: every (remainder, next byte) transition.

use crate::engine::{Report, Violation};
use crate::util::{hex, par_map, par_ranges};
use embedded_sdmmc::sdcard::proto::{crc16, crc7};
use serde_json::{json, Value};

/// Bit-serial division by x^16 + x^12 + x^5 + 1, zero initial value.
pub fn ref_crc16(msg: &[u8]) -> u16 {
    let mut r: u32 = 0;
    for &b in msg {
        for i in (0..8).rev() {
            let inbit = ((b >> i) & 1) as u32;
            let top = (r >> 15) & 1;
            r = (r << 1) & 0xFFFF;
            if top ^ inbit != 0 {
                r ^= 0x1021;
            }
        }
    }
    r as u16
}

/// Remainder modulo x^7 + x^3 + 1, shifted left with the end bit set.
pub fn ref_crc7(msg: &[u8]) -> u8 {
    let mut r: u32 = 0;
    for &b in msg {
        for i in (0..8).rev() {
            let inbit = ((b >> i) & 1) as u32;
            let top = (r >> 6) & 1;
            r = (r << 1) & 0x7F;
            if top ^ inbit != 0 {
                r ^= 0x09;
            }
        }
    }
    ((r as u8) << 1) | 1
}

fn v(sig: &str, detail: String, input: Value) -> Violation {
    Violation {
        prop: "C19".into(),
        sig: sig.into(),
        detail,
        scenario: "input".into(),
        hist: vec![],
        input: Some(input),
    }
}

fn check16(msg: &[u8]) -> Option<Violation> {
    let got = crate::util::catch_quiet(|| crc16(msg));
    let want = ref_crc16(msg);
    match got {
        crate::util::Caught::Ok(g) if g == want => None,
        crate::util::Caught::Ok(g) => Some(v(
            "crc16/differs-from-polynomial-division",
            format!("crc16({} bytes: {}...) = {:#06x}, division gives {:#06x}", msg.len(), hex(&msg[..msg.len().min(8)]), g, want),
            json!({"kind":"crc16","msg":hex(msg)}),
        )),
        crate::util::Caught::Panic(m) => Some(v("crc16/panic", m, json!({"kind":"crc16","msg":hex(msg)}))),
    }
}

fn check7(msg: &[u8]) -> Option<Violation> {
    let got = crate::util::catch_quiet(|| crc7(msg));
    let want = ref_crc7(msg);
    match got {
        crate::util::Caught::Ok(g) if g == want => None,
        crate::util::Caught::Ok(g) => Some(v(
            "crc7/differs-from-polynomial-division",
            format!("crc7({}) = {:#04x}, division gives {:#04x}", hex(msg), g, want),
            json!({"kind":"crc7","msg":hex(msg)}),
        )),
        crate::util::Caught::Panic(m) => Some(v("crc7/panic", m, json!({"kind":"crc7","msg":hex(msg)}))),
    }
}

fn pattern_msg(kind: u32, len: usize) -> Vec<u8> {
    (0..len)
        .map(|i| match kind {
            0 => 0xFF,
            1 => (i as u8).wrapping_mul(37).wrapping_add(11),
            _ => (crate::util::mix64(i as u64 ^ 0xC19) >> 17) as u8,
        })
        .collect()
}

pub fn replay_input(inp: &Value) -> i32 {
    let msg: Vec<u8> = inp["msg"]
        .as_str()
        .map(|s| (0..s.len() / 2).map(|i| u8::from_str_radix(&s[2 * i..2 * i + 2], 16).unwrap_or(0)).collect())
        .unwrap_or_default();
    let r = match inp["kind"].as_str() {
        Some("crc16") => check16(&msg),
        Some("crc7") => check7(&msg),
        Some("detect") => check_detect(&msg, inp["bits"].as_array().map(|a| a.iter().map(|x| x.as_u64().unwrap_or(0) as usize).collect::<Vec<usize>>()).unwrap_or_default().as_slice()),
        Some("wire") => {
            let j = json!({"kind": inp["card"], "crc": inp["crc"], "ops": inp["ops"]});
            let found = super::sdprops::wire_checksum_replay(&j);
            for (s, d) in &found {
                println!("VIOLATION property=C19 signature=wire/{}\n  {}", s, d);
            }
            if found.is_empty() {
                println!("no violation on replay");
            }
            return if found.is_empty() { 0 } else { 1 };
        }
        _ => return 2,
    };
    match r {
        Some(x) => {
            println!("VIOLATION property=C19 signature={}\n  {}", x.sig, x.detail);
            1
        }
        None => {
            println!("no violation on replay");
            0
        }
    }
}

/// Does flipping `bits` (bit index over 512 data bytes then 2 CRC bytes) go undetected?
fn check_detect(block: &[u8], bits: &[usize]) -> Option<Violation> {
    let mut data = block.to_vec();
    let crc = crc16(&data);
    let mut crc_bytes = crc.to_be_bytes();
    for &b in bits {
        let (byte, bit) = (b / 8, 7 - b % 8);
        if byte < 512 {
            data[byte] ^= 1 << bit;
        } else {
            crc_bytes[byte - 512] ^= 1 << bit;
        }
    }
    if crc16(&data) == u16::from_be_bytes(crc_bytes) {
        Some(v(
            "crc16/error-not-detected",
            format!("flipping bits {:?} of block+CRC leaves the checksum matching", bits),
            json!({"kind":"detect","msg":hex(block),"bits":bits}),
        ))
    } else {
        None
    }
}

pub fn run(tier: &str) -> i32 {
    let mut rep = Report::new("C19", tier, "model_checking");
    let mut viols: Vec<Violation> = Vec::new();
    let mut evals: u64 = 0;

    // --- CRC-16: all messages of length 0..=3 -> every (remainder, byte) transition
    for m in [vec![], vec![0u8], vec![0xFFu8]] {
        viols.extend(check16(&m));
    }
    let parts = par_ranges(1 << 24, 64, |a, b| {
        let mut bad = Vec::new();
        let mut reach = vec![0u64; 1024]; // bitmap of remainders after 2 bytes
        for x in a..b {
            let m = [(x >> 16) as u8, (x >> 8) as u8, x as u8];
            if bad.len() < 3 {
                bad.extend(check16(&m));
                if x & 0xFF == 0 {
                    bad.extend(check16(&m[..2]));
                    let r = crc16(&m[..2]);
                    reach[(r >> 6) as usize] |= 1 << (r & 63);
                    if x & 0xFFFF == 0 {
                        bad.extend(check16(&m[..1]));
                    }
                }
            }
        }
        (bad, reach)
    });
    let mut reach = vec![0u64; 1024];
    for (b, r) in parts {
        viols.extend(b);
        for i in 0..1024 {
            reach[i] |= r[i];
        }
    }
    evals += (1 << 24) + (1 << 16) + (1 << 8) + 1;
    let distinct_remainders: u32 = reach.iter().map(|w| w.count_ones()).sum();
    if distinct_remainders != 65536 {
        viols.push(v(
            "crc16/register-values-not-all-reachable",
            format!("two-byte prefixes reach only {} of 65536 register values; the transition enumeration is then not complete", distinct_remainders),
            json!({"kind":"crc16","msg":""}),
        ));
    }

    // --- fold proviso: single-bit basis messages, append-CRC-gives-zero, length sweep
    let mut basis = 0u64;
    for len in [5usize, 16, 512, 514] {
        let r: Vec<Option<Violation>> = par_map(len * 8, |bit| {
            let mut m = vec![0u8; len];
            m[bit / 8] = 0x80 >> (bit % 8);
            if let Some(x) = check16(&m) {
                return Some(x);
            }
            let c = crc16(&m);
            let mut m2 = m.clone();
            m2.extend_from_slice(&c.to_be_bytes());
            if crc16(&m2) != 0 {
                return Some(v(
                    "crc16/append-crc-not-zero",
                    format!("message with only bit {} of {} bytes set: crc of message+crc = {:#06x}", bit, len, crc16(&m2)),
                    json!({"kind":"crc16","msg":hex(&m2)}),
                ));
            }
            None
        });
        basis += (len * 8) as u64;
        viols.extend(r.into_iter().flatten().take(3));
    }
    let sweep: Vec<Vec<Violation>> = par_map(2049, |len| {
        let mut out = Vec::new();
        for k in 0..3 {
            let m = pattern_msg(k, len);
            out.extend(check16(&m));
            let c = crc16(&m);
            let mut m2 = m.clone();
            m2.extend_from_slice(&c.to_be_bytes());
            if crc16(&m2) != 0 {
                out.push(v("crc16/append-crc-not-zero", format!("pattern {} length {}", k, len), json!({"kind":"crc16","msg":hex(&m2)})));
            }
        }
        out
    });
    for s in sweep {
        viols.extend(s.into_iter().take(2));
    }
    evals += basis * 2 + 2049 * 6;

    // --- CRC-7: all messages of length <= 2, all command frames with 0/1/2 argument bits
    viols.extend(check7(&[]));
    for a in 0..=255u8 {
        viols.extend(check7(&[a]));
    }
    let r7: Vec<Vec<Violation>> = par_map(256, |a| {
        let mut out = Vec::new();
        for b in 0..=255u8 {
            out.extend(check7(&[a as u8, b]));
        }
        out
    });
    for s in r7 {
        viols.extend(s.into_iter().take(2));
    }
    let mut frames = 0u64;
    let rf: Vec<(Vec<Violation>, u64)> = par_map(64, |cmd| {
        let mut out = Vec::new();
        let mut n = 0u64;
        let mut args: Vec<u32> = vec![0];
        for i in 0..32 {
            args.push(1 << i);
            for j in (i + 1)..32 {
                args.push((1 << i) | (1 << j));
            }
        }
        args.extend_from_slice(&[0x1AA, 0x4000_0000, 0xFFFF_FFFF, 512, 0x0001_0000]);
        for a in args {
            let f = [0x40 | cmd as u8, (a >> 24) as u8, (a >> 16) as u8, (a >> 8) as u8, a as u8];
            out.extend(check7(&f));
            n += 1;
        }
        (out, n)
    });
    for (s, n) in rf {
        viols.extend(s.into_iter().take(2));
        frames += n;
    }
    // golden frames from the SD specification
    if crc7(&[0x40, 0, 0, 0, 0]) != 0x95 || crc7(&[0x48, 0, 0, 1, 0xAA]) != 0x87 {
        viols.push(v("crc7/golden-frame", "CMD0 / CMD8 golden CRC bytes 0x95 / 0x87 not reproduced".into(), json!({"kind":"crc7","msg":"4000000000"})));
    }
    evals += 1 + 256 + 65536 + frames;

    // --- error detection on a 512-byte block + CRC
    let nbits = 514 * 8;
    let blocks = [vec![0u8; 512], pattern_msg(2, 512)];
    let mut detect_cases = 0u64;
    for blk in &blocks {
        // single
        for b in 0..nbits {
            viols.extend(check_detect(blk, &[b]));
        }
        detect_cases += nbits as u64;
        // double: all pairs
        let pr: Vec<Option<Violation>> = par_map(nbits, |i| {
            for j in (i + 1)..nbits {
                if let Some(x) = check_detect(blk, &[i, j]) {
                    return Some(x);
                }
            }
            None
        });
        viols.extend(pr.into_iter().flatten().take(3));
        detect_cases += (nbits as u64 * (nbits as u64 - 1)) / 2;
        if tier == "quick" {
            break;
        }
    }
    // bursts up to 16 bits: first and last bit set, interior arbitrary
    let burst_patterns: Vec<Vec<usize>> = {
        let mut p = vec![vec![0usize]];
        for len in 2..=16usize {
            for mid in 0..(1u32 << (len - 2)) {
                let mut bits = vec![0usize];
                for k in 0..(len - 2) {
                    if mid >> k & 1 != 0 {
                        bits.push(k + 1);
                    }
                }
                bits.push(len - 1);
                p.push(bits);
            }
        }
        p
    };
    let blk = &blocks[1];
    let positions: Vec<usize> = (0..nbits).collect();
    let bursts: Vec<(Option<Violation>, u64)> = par_map(positions.len(), |pi| {
        let p = positions[pi];
        let all = tier == "thorough" || pi % 64 == 0;
        let mut n = 0u64;
        for (k, pat) in burst_patterns.iter().enumerate() {
            if !all && !(k < 4 || k % 4099 == 7) {
                continue;
            }
            let bits: Vec<usize> = pat.iter().map(|o| p + o).filter(|&b| b < nbits).collect();
            if bits.len() != pat.len() {
                continue;
            }
            n += 1;
            if let Some(x) = check_detect(blk, &bits) {
                return (Some(x), n);
            }
        }
        (None, n)
    });
    let mut burst_cases = 0u64;
    for (x, n) in bursts {
        viols.extend(x);
        burst_cases += n;
    }
    evals += detect_cases + burst_cases;

    rep.cov("states", json!(distinct_remainders));
    rep.cov("transitions", json!(1u64 << 24));
    rep.cov("traces_validated_against_impl", json!(evals));
    rep.cov("evaluations", json!(evals));
    rep.cov("distinct_nontrivial", json!(evals - 3));
    rep.cov("rule", json!("every message of length 0..=3 (= every (remainder, next byte) transition of the CRC-16 register, all 65536 remainders reached), single-bit basis messages of lengths 5/16/512/514 with the append-CRC-gives-zero identity, three patterns at every length 0..=2048; CRC-7: all messages of length <= 2 and all command frames with 0,1,2 argument bits; error detection: all single and double bit errors and bursts <= 16 bits over block+CRC"));
    rep.cov("crc7_frames", json!(frames));
    rep.cov("double_bit_error_pairs", json!(detect_cases));
    rep.cov("burst_cases", json!(burst_cases));
    rep.cov("burst_exhaustive", json!(tier == "thorough"));
    rep.cov("samples", json!([
        {"crc16_msg":"010203","crc16": format!("{:#06x}", crc16(&[1,2,3]))},
        {"crc7_frame":"4800 0001aa","crc7": format!("{:#04x}", crc7(&[0x48,0,0,1,0xAA]))},
        {"detect":"bits [5, 4100] flipped in block+CRC"}
    ]));
    if tier == "quick" {
        rep.cov("exhaustive", json!(true));
        rep.cov("exhaustive_note", json!("exhaustive over the transition relation and single/double errors; the burst sweep is exhaustive only in the thorough tier"));
    }
    rep.assumptions.push("reference = bit-serial polynomial division written from the SD specification".into());
    rep.assumptions.push("the 'random messages' clause of the quantifier is replaced by deterministic length sweeps; no sampling contributes to the verdict".into());
    // --- the checksums as the driver uses them on the bus
    let (wire, frames_on_wire) = super::sdprops::wire_checksum_runs();
    for (kind, crc, ops, sig, detail) in wire {
        let x = v(&format!("wire/{}", sig), format!("card kind {}, CRC {}: {}", kind, if crc { "on" } else { "off" }, detail), json!({"kind":"wire","card":kind,"crc":crc,"ops":ops}));
        if !viols.iter().any(|y| y.sig == x.sig) {
            viols.push(x);
        }
    }
    rep.cov("command_frames_checked_on_the_bus", json!(frames_on_wire));
    rep.add_violations(viols);
    rep.finish()
}
