//! Property checks.
pub fn run(id: &str, tier: &str) -> i32 {
    match id {
        _ => {
            eprintln!("unknown property {}", id);
            let _ = tier;
            2
        }
    }
}
pub fn replay(_path: &str) -> i32 {
    2
}
