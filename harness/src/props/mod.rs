//! Property checks.
pub mod c01;
pub mod c11;
pub mod c15;
pub mod c17;
pub mod c18;
pub mod c19;
pub mod common;
pub mod dirprops;
pub mod fsprops;
pub mod sdprops;

pub fn run(id: &str, tier: &str) -> i32 {
    let st = crate::selftest::run_machinery(false);
    if st != 0 {
        return st;
    }
    crate::selftest::note_fingerprint_quality();
    let level = match id {
        "C09" | "C10" | "C11" | "C13" => "fault_enumeration",
        "C15" | "C18" => "exploration",
        _ => "model_checking",
    };
    // (the file-system checks only: their calls into the library take milliseconds; the codec / SD sweeps wrap whole
    // ranges of cases in one panic guard and have their own traffic horizon)
    if matches!(id, "C01" | "C02" | "C03" | "C04" | "C05" | "C06" | "C07" | "C09" | "C10" | "C11" | "C16") {
        crate::watchdog::start(id, tier, level);
    }
    match id {
        "C01" => c01::run(tier),
        "C06" => dirprops::run_c06(tier),
        "C02" | "C03" | "C04" | "C05" | "C16" | "C09" | "C10" | "C07" => {
            let d = hist_def(id).unwrap();
            let mut rep = crate::engine::Report::new(d.id, tier, d.level);
            common::run_hist(&d, tier, &mut rep);
            if id == "C04" {
                let (v, n, m) = fsprops::odd_info_sweep();
                rep.add_violations(v);
                rep.cov("volumes_with_odd_information_sector_pointers", serde_json::json!({"cases": n, "mounted": m, "variants": fsprops::ODD_INFO_VARIANTS}));
            }
            if id == "C09" || id == "C10" {
                let ld = std::sync::atomic::Ordering::Relaxed;
                rep.cov("evaluations", serde_json::json!(fsprops::CRASH_IMAGES.load(ld)));
                rep.cov("crash_images", serde_json::json!(fsprops::CRASH_IMAGES.load(ld)));
                rep.cov("distinct_nontrivial", serde_json::json!(fsprops::CRASH_TRANSITIONS.load(ld)));
                rep.cov("rule", serde_json::json!("for every transition of the history BFS (distinct by construction) that writes at least one block, one crash image per prefix of its block-write log is rebuilt and judged; evaluations = crash images, distinct_nontrivial = transitions with a non-empty write log"));
            }
            rep.finish()
        }
        "C11" => {
            let d = c11::def(tier == "thorough");
            let mut rep = crate::engine::Report::new(d.id, tier, d.level);
            common::run_hist(&d, tier, &mut rep);
            // fault_enumeration evidence keys
            let t = rep.coverage.get("transitions").and_then(|x| x.as_u64()).unwrap_or(0);
            let r = rep.coverage.get("replays_of_real_code").and_then(|x| x.as_u64()).unwrap_or(0);
            let fr = c11::FAULT_RUNS.load(std::sync::atomic::Ordering::Relaxed);
            rep.cov("evaluations", serde_json::json!(r + fr));
            rep.cov("fault_injected_executions", serde_json::json!(fr));
            rep.cov("fault_injected_executions_of_calls_outside_the_alphabet", serde_json::json!(c11::EXTRA_FAULT_RUNS.load(std::sync::atomic::Ordering::Relaxed)));
            rep.cov("calls_outside_the_alphabet_probed_at_every_state", serde_json::json!(["get_root_volume_label (BPB label blank on V32a: root-directory search)", "iterate_dir_lfn"]));
            rep.cov("fault_positions_by_call_kind_and_region", serde_json::json!(*c11::FAULT_KINDS.lock().unwrap()));
            rep.cov("distinct_nontrivial", serde_json::json!(t));
            rep.cov("rule", serde_json::json!("every transition of the history BFS is re-executed once per device call with that call failing; non-trivial = distinct (history, operation) transitions that issue at least one device call"));
            rep.finish()
        }
        "C12" => sdprops::run_c12(tier),
        "C13" => sdprops::run_c13(tier),
        "C14" => sdprops::run_c14(tier),
        "C15" => c15::run(tier),
        "C17" => c17::run(tier),
        "C18" => c18::run(tier),
        "C19" => c19::run(tier),
        _ => {
            eprintln!("unknown property {}", id);
            2
        }
    }
}
fn hist_def(id: &str) -> Option<common::HistProp> {
    match id {
        "C01" => Some(c01::def()),
        "C02" => Some(fsprops::c02_def()),
        "C03" => Some(fsprops::c03_def()),
        "C04" => Some(fsprops::c04_def()),
        "C05" => Some(fsprops::c05_def()),
        "C16" => Some(fsprops::c16_def()),
        "C11" => Some(c11::def(false)),
        "C06" => Some(dirprops::c06_def()),
        "C07" => Some(dirprops::c07_def()),
        "C09" => Some(fsprops::c09_def()),
        "C10" => Some(fsprops::c10_def()),
        _ => None,
    }
}

pub fn replay(path: &str) -> i32 {
    let s = match std::fs::read_to_string(path) {
        Ok(s) => s,
        Err(e) => {
            eprintln!("cannot read {}: {}", path, e);
            return 2;
        }
    };
    let v: serde_json::Value = match serde_json::from_str(&s) {
        Ok(v) => v,
        Err(e) => {
            eprintln!("cannot parse {}: {}", path, e);
            return 2;
        }
    };
    let id = v["property"].as_str().unwrap_or("");
    let scenario = v["scenario"].as_str().unwrap_or("");
    println!("property {} signature {}", id, v["signature"].as_str().unwrap_or(""));
    if scenario.starts_with("probe/") {
        return match run_probe(&scenario[6..]) {
            ProbeOutcome::Ok => {
                println!("no violation on replay");
                0
            }
            ProbeOutcome::Failed(m) => {
                println!("VIOLATION property={} {}", id, m);
                1
            }
        };
    }
    if let Some(inp) = v.get("input").filter(|x| !x.is_null()) {
        return replay_input(id, inp);
    }
    let hist: Vec<crate::world::Op> = v["history"].as_array().map(|a| a.iter().filter_map(crate::world::Op::from_json).collect()).unwrap_or_default();
    match hist_def(id) {
        Some(d) => common::replay_hist(&d, scenario, &hist),
        None => {
            eprintln!("no history replay for {}", id);
            2
        }
    }
}

fn replay_input(id: &str, _inp: &serde_json::Value) -> i32 {
    match id {
        "C04" => fsprops::replay_input_c04(_inp),
        "C06" => dirprops::replay_input_c06(_inp),
        "C12" | "C13" | "C14" => sdprops::replay_input(_inp),
        "C15" => c15::replay_input(_inp),
        "C17" => c17::replay_input(_inp),
        "C18" => c18::replay_input(_inp),
        "C19" => c19::replay_input(_inp),
        _ => {
            eprintln!("no input replay for {}", id);
            2
        }
    }
}

/// Probes run in a child process because the failure they look for aborts the
/// process (stack overflow) instead of unwinding.
pub fn probe(name: &str) -> i32 {
    match name {
        "eio" => c01::probe_eio(),
        "large-file" => {
            let (v, _) = c01::large_file_probe();
            for x in &v {
                eprintln!("{}: {}", x.sig, x.detail);
            }
            if v.is_empty() {
                0
            } else {
                1
            }
        }
        _ => 2,
    }
}

pub enum ProbeOutcome {
    Ok,
    Failed(String),
}

pub fn run_probe(name: &str) -> ProbeOutcome {
    let exe = std::env::current_exe().expect("current_exe");
    match std::process::Command::new(exe).arg("--probe").arg(name).output() {
        Ok(o) if o.status.success() => ProbeOutcome::Ok,
        Ok(o) => ProbeOutcome::Failed(format!(
            "child process ended with {:?}; stderr: {}",
            o.status,
            String::from_utf8_lossy(&o.stderr).lines().rev().take(3).collect::<Vec<_>>().join(" | ")
        )),
        Err(e) => crate::engine::machinery_fail(&format!("cannot spawn probe: {}", e)),
    }
}
