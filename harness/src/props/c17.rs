//! C17 — long-file-name decoding is total, yields valid UTF-8 and the right name.

use crate::engine::{Report, Violation};
use crate::mkfs::{self, lfn_slot, short_entry, FsInfo, Mk, FMT_DATE, FMT_TIME};
use crate::refat;
use crate::scen;
use crate::simdisk::{BaseImage, Blk, Clock, Image, Rd, SimDisk};
use crate::util::{catch_quiet, hex, par_map, par_ranges, Caught};
use embedded_sdmmc::{LfnBuffer, VolumeIdx, VolumeManager};
use serde_json::{json, Value};
use std::sync::Arc;

fn v(sig: &str, detail: String, input: Value) -> Violation {
    Violation {
        prop: "C17".into(),
        sig: sig.into(),
        detail,
        scenario: "input".into(),
        hist: vec![],
        input: Some(input),
    }
}

// ---- decoder ------------------------------------------------------------------

/// `frags` in NAME order (fragment 1 first); pushed last-first like the directory walk does.
fn decode_case(frags: &[[u16; 13]], bufsize: usize) -> Option<Violation> {
    let inp = json!({"kind":"decode","frags":frags.iter().map(|f| f.to_vec()).collect::<Vec<_>>(),"buf":bufsize});
    let mut units: Vec<u16> = Vec::new();
    for f in frags {
        for &u in f.iter() {
            if u == 0 {
                break;
            }
            units.push(u);
        }
    }
    let lossy = String::from_utf16_lossy(&units);
    let want: &str = if lossy.len() <= bufsize { &lossy } else { "" };
    let r = catch_quiet(|| {
        let mut storage = vec![0u8; bufsize];
        let mut b = LfnBuffer::new(&mut storage);
        for f in frags.iter().rev() {
            b.push(f);
        }
        b.as_str().as_bytes().to_vec()
    });
    match r {
        Caught::Panic(m) => Some(v("lfn-decode/push-panics", format!("{} fragment(s), buffer {}: {}", frags.len(), bufsize, m), inp)),
        Caught::Ok(bytes) => {
            let s = match std::str::from_utf8(&bytes) {
                Ok(s) => s,
                Err(e) => return Some(v("lfn-decode/invalid-utf8", format!("as_str() bytes {} are not UTF-8: {}", hex(&bytes), e), inp)),
            };
            if s == want {
                return None;
            }
            // classify
            let first_is_surrogate = units.first().map(|u| (0xD800..=0xDFFF).contains(u)).unwrap_or(false);
            let lone_first = first_is_surrogate && lossy.starts_with('\u{FFFD}');
            if lone_first && lossy.len() <= bufsize && format!("\u{FFFD}{}", s) == lossy {
                return Some(v(
                    "lfn-decode/leading-unpaired-surrogate-dropped",
                    format!("name starts with the unpaired surrogate {:#06x}: decoded {:?}, lossy decoding is {:?}", units[0], s, lossy),
                    inp,
                ));
            }
            if lone_first && lossy.len() > bufsize && lossy.len() - 3 <= bufsize && format!("\u{FFFD}{}", s) == lossy {
                // the dropped replacement character made an over-long name fit: same cause
                return Some(v(
                    "lfn-decode/leading-unpaired-surrogate-dropped",
                    format!("name starts with the unpaired surrogate {:#06x} and needs {} bytes (buffer {}): decoded {:?} instead of \"\"", units[0], lossy.len(), bufsize, s),
                    inp,
                ));
            }
            Some(v(
                "lfn-decode/wrong-string",
                format!("{} fragment(s), buffer {}: decoded {:?}, expected {:?}", frags.len(), bufsize, s, want),
                inp,
            ))
        }
    }
}

const CLASSES: [u16; 7] = [0x41, 0xE9, 0x20AC, 0xD83D, 0xDE00, 0x0000, 0xFFFF];

fn sizes_for(frags: &[[u16; 13]]) -> Vec<usize> {
    let mut units: Vec<u16> = Vec::new();
    for f in frags {
        for &u in f.iter() {
            if u == 0 {
                break;
            }
            units.push(u);
        }
    }
    let n = String::from_utf16_lossy(&units).len();
    let mut v = vec![780, n];
    if n > 0 {
        v.push(n - 1);
    }
    if n > 3 {
        v.push(n - 3);
    }
    v
}

fn push_unique(bad: &mut Vec<Violation>, x: Option<Violation>) {
    if let Some(x) = x {
        if !bad.iter().any(|y| y.sig == x.sig) {
            bad.push(x);
        }
    }
}

/// A buffer that held name A and was cleared must decode name B exactly like a fresh buffer.
fn reuse_case(a: &[[u16; 13]], b: &[[u16; 13]], bufsize: usize) -> Option<Violation> {
    let inp = json!({"kind":"reuse","a":a.iter().map(|f| f.to_vec()).collect::<Vec<_>>(),"b":b.iter().map(|f| f.to_vec()).collect::<Vec<_>>(),"buf":bufsize});
    let r = catch_quiet(|| {
        let mut storage = vec![0u8; bufsize];
        let mut buf = LfnBuffer::new(&mut storage);
        for f in a.iter().rev() {
            buf.push(f);
        }
        buf.clear();
        for f in b.iter().rev() {
            buf.push(f);
        }
        let reused = buf.as_str().as_bytes().to_vec();
        let mut storage2 = vec![0u8; bufsize];
        let mut fresh = LfnBuffer::new(&mut storage2);
        for f in b.iter().rev() {
            fresh.push(f);
        }
        (reused, fresh.as_str().as_bytes().to_vec())
    });
    match r {
        Caught::Panic(m) => Some(v("lfn-decode/push-panics", format!("reuse after clear: {}", m), inp)),
        Caught::Ok((reused, fresh)) if reused != fresh => Some(v(
            "lfn-decode/cleared-buffer-differs-from-fresh-buffer",
            format!("after decoding another name and clear(), the name decodes as {:?}; a fresh buffer gives {:?}", String::from_utf8_lossy(&reused), String::from_utf8_lossy(&fresh)),
            inp,
        )),
        _ => None,
    }
}

fn decoder_sweep(tier: &str) -> (Vec<Violation>, u64) {
    let mut viols = Vec::new();
    let mut n = 0u64;
    // (f) reuse after clear: every first-name shape (4 positions x 7 classes) followed by three second names
    {
        let pos4 = [0usize, 1, 11, 12];
        let seconds: Vec<Vec<[u16; 13]>> = vec![
            vec![{
                let mut f = [0xFFFFu16; 13];
                for (i, c) in "hello.txt".encode_utf16().enumerate() {
                    f[i] = c;
                }
                f[9] = 0;
                f
            }],
            vec![[0x61u16; 13], {
                let mut f = [0xFFFFu16; 13];
                f[0] = 0x62;
                f[1] = 0xD83D;
                f[2] = 0xDE00;
                f[3] = 0;
                f
            }],
            vec![{
                let mut f = [0x7Au16; 13];
                f[12] = 0xD83D;
                f
            }],
        ];
        let parts = par_ranges(7u64.pow(4), 16, |a, b| {
            let mut bad = Vec::new();
            let mut k = 0u64;
            for x in a..b {
                let mut f = [0x78u16; 13];
                let mut y = x;
                for &p in &pos4 {
                    f[p] = CLASSES[(y % 7) as usize];
                    y /= 7;
                }
                for s2 in &seconds {
                    k += 1;
                    push_unique(&mut bad, reuse_case(&[f], s2, 780));
                    k += 1;
                    push_unique(&mut bad, reuse_case(&[f, [0x41; 13]], s2, 64));
                }
            }
            (bad, k)
        });
        for (b, k) in parts {
            for x in b {
                push_unique(&mut viols, Some(x));
            }
            n += k;
        }
    }
    // (g) a tail fragment of multi-byte characters and a short head fragment, every buffer size 0..=64:
    //     an overflow in the tail must stay an overflow although the head would fit into the spare bytes
    {
        let tails: [u16; 4] = [0x41, 0xE9, 0x20AC, 0x3042];
        let mut cases: Vec<(Vec<[u16; 13]>, usize)> = Vec::new();
        for &t in &tails {
            for head_len in 0..=4usize {
                let mut head = [0xFFFFu16; 13];
                for h in head.iter_mut().take(head_len) {
                    *h = 0x41;
                }
                head[head_len] = 0;
                let tail = [t; 13];
                let mut pair_tail = [0u16; 13];
                for (i, u) in pair_tail.iter_mut().enumerate() {
                    *u = if i % 2 == 0 { 0xD83D } else { 0xDE00 };
                }
                pair_tail[12] = 0x41;
                for size in 0..=64usize {
                    cases.push((vec![head, tail], size));
                    cases.push((vec![head, pair_tail], size));
                    cases.push((vec![head, tail, tail], size));
                }
            }
        }
        let res: Vec<Option<Violation>> = par_map(cases.len(), |i| decode_case(&cases[i].0, cases[i].1));
        n += cases.len() as u64;
        for x in res.into_iter().flatten() {
            push_unique(&mut viols, Some(x));
        }
    }
    let _ = tier;
    let pos4 = [0usize, 1, 11, 12];
    // (a) one fragment, 4 positions over all classes
    let parts = par_ranges(7u64.pow(4), 16, |a, b| {
        let mut bad = Vec::new();
        let mut k = 0u64;
        for x in a..b {
            let mut f = [0x78u16; 13];
            let mut y = x;
            for &p in &pos4 {
                f[p] = CLASSES[(y % 7) as usize];
                y /= 7;
            }
            for sz in sizes_for(&[f]) {
                k += 1;
                push_unique(&mut bad, decode_case(&[f], sz));
            }
        }
        (bad, k)
    });
    for (b, k) in parts {
        for x in b {
            push_unique(&mut viols, Some(x));
        }
        n += k;
    }
    // (b) all 13 positions over {A, high, low, NUL}
    let small = [0x41u16, 0xD83D, 0xDE00, 0x0000];
    let npos = if tier == "quick" { 9 } else { 13 };
    let parts = par_ranges(4u64.pow(npos), 64, |a, b| {
        let mut bad = Vec::new();
        let mut k = 0u64;
        for x in a..b {
            let mut f = [0x78u16; 13];
            let mut y = x;
            for p in 0..npos as usize {
                // spread the positions over both ends
                let idx = if p % 2 == 0 { p / 2 } else { 12 - p / 2 };
                f[idx] = small[(y % 4) as usize];
                y /= 4;
            }
            k += 1;
            push_unique(&mut bad, decode_case(&[f], 780));
        }
        (bad, k)
    });
    for (b, k) in parts {
        for x in b {
            push_unique(&mut viols, Some(x));
        }
        n += k;
    }
    // (c) two fragments x 4 boundary positions each
    let cls2: &[u16] = if tier == "quick" { &[0x41, 0x20AC, 0xD83D, 0xDE00, 0x0000] } else { &CLASSES };
    let c = cls2.len() as u64;
    let parts = par_ranges(c.pow(8), 64, |a, b| {
        let mut bad = Vec::new();
        let mut k = 0u64;
        for x in a..b {
            let mut f1 = [0x78u16; 13];
            let mut f2 = [0x79u16; 13];
            let mut y = x;
            for &p in &pos4 {
                f1[p] = cls2[(y % c) as usize];
                y /= c;
            }
            for &p in &pos4 {
                f2[p] = cls2[(y % c) as usize];
                y /= c;
            }
            k += 1;
            push_unique(&mut bad, decode_case(&[f1, f2], 780));
        }
        (bad, k)
    });
    for (b, k) in parts {
        for x in b {
            push_unique(&mut viols, Some(x));
        }
        n += k;
    }
    // (d) three fragments x positions {0, 12}
    let parts = par_ranges(7u64.pow(6), 32, |a, b| {
        let mut bad = Vec::new();
        let mut k = 0u64;
        for x in a..b {
            let mut fr = [[0x78u16; 13], [0x79u16; 13], [0x7Au16; 13]];
            let mut y = x;
            for f in fr.iter_mut() {
                for p in [0usize, 12] {
                    f[p] = CLASSES[(y % 7) as usize];
                    y /= 7;
                }
            }
            for sz in sizes_for(&fr) {
                k += 1;
                push_unique(&mut bad, decode_case(&fr, sz));
            }
        }
        (bad, k)
    });
    for (b, k) in parts {
        for x in b {
            push_unique(&mut viols, Some(x));
        }
        n += k;
    }
    // (e) 1..=20 fragments of uniform 1/2/3/4-byte content x every buffer size 0..=780
    let res: Vec<(Vec<Violation>, u64)> = par_map(20 * 4, |i| {
        let nfrag = i / 4 + 1;
        let kind = i % 4;
        let mut units: Vec<u16> = Vec::new();
        while units.len() < nfrag * 13 {
            match kind {
                0 => units.push(0x41),
                1 => units.push(0xE9),
                2 => units.push(0x20AC),
                _ => {
                    units.push(0xD83D);
                    units.push(0xDE00);
                }
            }
        }
        units.truncate(nfrag * 13);
        let frags: Vec<[u16; 13]> = units.chunks(13).map(|c| {
            let mut f = [0u16; 13];
            f.copy_from_slice(c);
            f
        }).collect();
        let mut bad = Vec::new();
        let mut k = 0;
        for sz in 0..=780usize {
            k += 1;
            push_unique(&mut bad, decode_case(&frags, sz));
        }
        (bad, k)
    });
    for (b, k) in res {
        for x in b {
            push_unique(&mut viols, Some(x));
        }
        n += k;
    }
    (viols, n)
}

// ---- listing state machine ---------------------------------------------------------

pub struct ListEnv {
    pub base: Arc<BaseImage>,
    pub root_block: u32,
    pub vol: refat::Vol,
    pub fat: Vec<u32>,
}

pub fn list_env() -> ListEnv {
    let mut g = scen::g_v16a();
    g.root_entries = 32;
    let mk = Mk::new(g);
    let base = mk.finish(FsInfo::Correct);
    let vol = refat::locate(&base, 0).unwrap();
    ListEnv {
        root_block: vol.lba + vol.root_start,
        fat: refat::read_fat(&base, &vol, 0),
        vol,
        base: Arc::new(base),
    }
}

/// The same on FAT32 (the crate has a separate code path per FAT type): a two-cluster root at clusters 2, 3.
pub fn list_env32() -> ListEnv {
    let g = scen::g_v32a();
    let mut mk = Mk::new(g);
    let root = mk.root();
    mk.extend_dir(root, &[3]);
    let base = mk.finish(FsInfo::Correct);
    let vol = refat::locate(&base, 0).unwrap();
    ListEnv {
        root_block: vol.cluster_block(2),
        fat: refat::read_fat(&base, &vol, 0),
        vol,
        base: Arc::new(base),
    }
}

#[derive(Debug, Clone, PartialEq)]
pub struct Listed {
    pub name: [u8; 11],
    pub lfn: Option<String>,
}

/// List the root directory made of `slots` (end marker follows) with iterate_dir_lfn (buffer `bufsize`) and iterate_dir.
pub fn list_slots(env: &ListEnv, slots: &[[u8; 32]], bufsize: usize) -> (Caught<Result<Vec<Listed>, String>>, Caught<Result<Vec<[u8; 11]>, String>>, Image) {
    let mut img = Image::new(env.base.clone());
    for (bi, chunk) in slots.chunks(16).enumerate() {
        let mut blk: Blk = [0u8; 512];
        for (i, s) in chunk.iter().enumerate() {
            blk[i * 32..i * 32 + 32].copy_from_slice(s);
        }
        img.put(env.root_block + bi as u32, &blk);
    }
    let run = |lfn: bool| {
        let disk = SimDisk::new(img.clone());
        let vm: VolumeManager<SimDisk, Clock, 4, 4, 1> = VolumeManager::new(disk, Clock::new());
        let vol = vm.open_raw_volume(VolumeIdx(0)).map_err(|e| format!("{:?}", e))?;
        let root = vm.open_root_dir(vol).map_err(|e| format!("{:?}", e))?;
        let mut out = Vec::new();
        if lfn {
            let mut storage = vec![0u8; bufsize];
            let mut buf = LfnBuffer::new(&mut storage);
            vm.iterate_dir_lfn(root, &mut buf, |de, l| {
                let e = crate::world::list_ent(de, l);
                out.push(Listed { name: e.name, lfn: e.lfn });
            })
            .map_err(|e| format!("{:?}", e))?;
        } else {
            vm.iterate_dir(root, |de| {
                let e = crate::world::list_ent(de, None);
                out.push(Listed { name: e.name, lfn: None });
            })
            .map_err(|e| format!("{:?}", e))?;
        }
        Ok::<_, String>(out)
    };
    let a = catch_quiet(|| run(true));
    let b = match catch_quiet(|| run(false)) {
        Caught::Ok(r) => Caught::Ok(r.map(|v| v.into_iter().map(|l| l.name).collect())),
        Caught::Panic(m) => Caught::Panic(m),
    };
    (a, b, img)
}

fn slots_json(slots: &[[u8; 32]]) -> Value {
    json!(slots.iter().map(|s| hex(s)).collect::<Vec<_>>())
}

fn check_listing(env: &ListEnv, slots: &[[u8; 32]], bufsize: usize, arbitrary: bool) -> Vec<Violation> {
    let mut out = Vec::new();
    let inp = json!({"kind":"listing","slots":slots_json(slots),"buf":bufsize,"arbitrary":arbitrary});
    let (a, b, img) = list_slots(env, slots, bufsize);
    let listed = match a {
        Caught::Panic(m) => {
            out.push(v("lfn-listing/iterate_dir_lfn-panics", m, inp.clone()));
            None
        }
        Caught::Ok(Err(e)) => {
            out.push(v("lfn-listing/iterate_dir_lfn-error", e, inp.clone()));
            None
        }
        Caught::Ok(Ok(l)) => Some(l),
    };
    match b {
        Caught::Panic(m) => out.push(v("lfn-listing/iterate_dir-panics", m, inp.clone())),
        Caught::Ok(Err(e)) => out.push(v("lfn-listing/iterate_dir-error", e, inp.clone())),
        _ => {}
    }
    if arbitrary {
        return out; // arbitrary bytes: only "returns without panic"
    }
    let Some(listed) = listed else { return out };
    // reference
    let (rs, _, _) = refat::dir_slots(&img, &env.vol, &env.fat, refat::root_loc(&env.vol));
    let ents = refat::live_entries(&rs, env.vol.fat32);
    if ents.len() != listed.len() || ents.iter().zip(listed.iter()).any(|(e, l)| e.name != l.name) {
        out.push(v(
            "lfn-listing/entries-differ",
            format!("listed {:?}, reference {:?}", listed.iter().map(|l| refat::name_to_string(&l.name)).collect::<Vec<_>>(), ents.iter().map(|e| e.name_str()).collect::<Vec<_>>()),
            inp,
        ));
        return out;
    }
    for (e, l) in ents.iter().zip(listed.iter()) {
        let dec = |u: &Option<Vec<u16>>| -> Option<String> {
            u.as_ref().map(|u| String::from_utf16_lossy(u)).filter(|s| s.len() <= bufsize)
        };
        let strict = dec(&e.lfn);
        let mut accepted: Vec<Option<String>> = vec![strict.clone()];
        // tolerated alternatives: deleted slots in between; only the first fragment's checksum compared
        accepted.push(dec(&e.lfn_ambiguous).or(strict.clone()));
        accepted.push(dec(&refat::match_lfn_opt(&rs, e.slot, false, false)).or(strict.clone()));
        accepted.push(dec(&refat::match_lfn_opt(&rs, e.slot, true, false)).or(strict.clone()));
        // a name that does not fit is presented as "no long name"; Some("") is the documented overflow value too
        let got = l.lfn.clone();
        let ok = accepted.iter().any(|a| *a == got) || (got.as_deref() == Some("") && accepted.iter().any(|a| a.is_none()) && e.lfn.as_ref().map(|u| String::from_utf16_lossy(u).len() > bufsize).unwrap_or(false));
        if !ok {
            let cause = if strict.is_none() && got.is_some() {
                // does an earlier short entry own the run?
                let earlier_short_between = (0..e.slot).rev().take_while(|&j| !refat::is_lfn_slot(&rs[j].raw) || rs[j].raw[0] == 0xE5).any(|j| rs[j].raw[0] != 0xE5 && !refat::is_lfn_slot(&rs[j].raw));
                if earlier_short_between { "name-of-an-earlier-entry-inherited" } else { "name-reported-for-invalid-run" }
            } else if strict.is_some() && got.is_none() {
                "valid-run-not-reported"
            } else {
                "wrong-name"
            };
            out.push(v(
                &format!("lfn-listing/{}", cause),
                format!("entry {} reported with long name {:?}; the specification's matching rule gives {:?}", e.name_str(), got, strict),
                inp.clone(),
            ));
            break;
        }
    }
    out
}

fn listing_alphabet() -> Vec<(String, [u8; 32])> {
    let s1 = mkfs::n11("S1.TXT");
    let c1 = mkfs::lfn_checksum(&s1);
    // a second short name with the same checksum
    let mut s2 = mkfs::n11("T0000000.TXT");
    'f: for a in 0..26u8 {
        for b in 0..26u8 {
            for c in 0..26u8 {
                s2[1] = b'A' + a;
                s2[2] = b'A' + b;
                s2[5] = b'A' + c;
                if mkfs::lfn_checksum(&s2) == c1 {
                    break 'f;
                }
            }
        }
    }
    assert_eq!(mkfs::lfn_checksum(&s2), c1, "no second name with equal checksum found");
    let mut a: Vec<(String, [u8; 32])> = Vec::new();
    for start in [false, true] {
        for seq in [1u8, 2, 3] {
            for good in [true, false] {
                let mut units = [0xFFFFu16; 13];
                let text: Vec<u16> = format!("frag{}{}", seq, if start { "s" } else { "c" }).encode_utf16().collect();
                for (i, u) in text.iter().enumerate() {
                    units[i] = *u;
                }
                if start {
                    units[text.len()] = 0;
                } else {
                    // continuation fragments are full
                    for u in units.iter_mut().skip(text.len()) {
                        *u = 0x7A;
                    }
                }
                a.push((
                    format!("LFN(start={},seq={},csum={})", start, seq, if good { "good" } else { "bad" }),
                    lfn_slot(seq, start, if good { c1 } else { c1 ^ 0x55 }, &units),
                ));
            }
        }
    }
    for seq in [0x14u8, 0x15] {
        let mut units = [0x71u16; 13];
        units[12] = 0x72;
        a.push((format!("LFN(start=true,seq={:#x},csum=good)", seq), lfn_slot(seq, true, c1, &units)));
    }
    {
        // a (start, seq 1) fragment beginning with an unpaired low surrogate, with a bad and with a good checksum
        let mut units = [0xFFFFu16; 13];
        units[0] = 0xDE00;
        for (i, c) in ".txt".encode_utf16().enumerate() {
            units[1 + i] = c;
        }
        units[5] = 0;
        a.push(("LFN(start,seq=1,csum=bad,leading low surrogate)".into(), lfn_slot(1, true, c1 ^ 0x55, &units)));
        a.push(("LFN(start,seq=2,csum=good,leading low surrogate)".into(), lfn_slot(2, true, c1, &units)));
    }
    a.push(("S1".into(), short_entry(&s1, 0x20, 0, 0, FMT_DATE, FMT_TIME, FMT_DATE, FMT_TIME)));
    a.push(("S2(same checksum)".into(), short_entry(&s2, 0x20, 0, 0, FMT_DATE, FMT_TIME, FMT_DATE, FMT_TIME)));
    let mut del = short_entry(&mkfs::n11("DEL.TXT"), 0x20, 0, 0, FMT_DATE, FMT_TIME, FMT_DATE, FMT_TIME);
    del[0] = 0xE5;
    a.push(("deleted".into(), del));
    a.push(("label".into(), short_entry(b"MYLABEL    ", 0x08, 0, 0, FMT_DATE, FMT_TIME, FMT_DATE, FMT_TIME)));
    a
}

fn listing_sweep(tier: &str) -> (Vec<Violation>, u64, u64) {
    let alpha = listing_alphabet();
    let k = alpha.len() as u64;
    let maxlen = if tier == "quick" { 5 } else { 6 };
    let mut viols = Vec::new();
    let mut n = 0u64;
    let mut with_name = 0u64;
    for len in 1..=maxlen {
        let parts = par_ranges(k.pow(len), 64, |a, b| {
            let env = list_env();
            let env32 = if len < maxlen { Some(list_env32()) } else { None };
            let mut bad = Vec::new();
            let mut named = 0u64;
            for x in a..b {
                let mut y = x;
                let mut slots = Vec::new();
                for _ in 0..len {
                    slots.push(alpha[(y % k) as usize].1);
                    y /= k;
                }
                for x in check_listing(&env, &slots, 780, false) {
                    push_unique(&mut bad, Some(x));
                }
                if let Some(e32) = &env32 {
                    for mut x in check_listing(e32, &slots, 780, false) {
                        x.sig = format!("{}/fat32", x.sig);
                        x.input.as_mut().map(|i| i["fat32"] = json!(true));
                        push_unique(&mut bad, Some(x));
                    }
                }
                // vacuity counter: sequences containing a start fragment followed later by a short entry
                if slots.iter().any(|s| s[11] == 0x0F && s[0] & 0x40 != 0) && slots.last().map(|s| s[11] != 0x0F).unwrap_or(false) {
                    named += 1;
                }
            }
            (bad, b - a, named)
        });
        for (b, c, nm) in parts {
            for x in b {
                push_unique(&mut viols, Some(x));
            }
            n += c;
            with_name += nm;
        }
    }
    // complete 20- and 2-fragment runs (longest legal name), and small buffers
    let env = list_env();
    let s1 = mkfs::n11("S1.TXT");
    for nfrag in [2usize, 3, 19, 20] {
        let name: Vec<u16> = (0..nfrag * 13 - 3).map(|i| 0x61 + (i % 26) as u16).collect();
        let mut slots = mkfs::lfn_slots(&name, mkfs::lfn_checksum(&s1));
        slots.push(short_entry(&s1, 0x20, 0, 0, FMT_DATE, FMT_TIME, FMT_DATE, FMT_TIME));
        for buf in [780usize, name.len(), name.len() - 1, 0] {
            n += 1;
            for x in check_listing(&env, &slots, buf, false) {
                let mut x = x;
                if nfrag == 20 && x.sig == "lfn-listing/valid-run-not-reported" {
                    x.sig = "lfn-listing/valid-20-fragment-run-not-reported".into();
                }
                push_unique(&mut viols, Some(x));
            }
        }
    }
    (viols, n, with_name)
}

fn arbitrary_sweep(tier: &str) -> (Vec<Violation>, u64) {
    let vals: [u8; 13] = [0x00, 0x01, 0x05, 0x0F, 0x14, 0x20, 0x2E, 0x40, 0x41, 0x7F, 0x80, 0xE5, 0xFF];
    let s1 = short_entry(&mkfs::n11("S1.TXT"), 0x20, 3, 100, FMT_DATE, FMT_TIME, FMT_DATE, FMT_TIME);
    let mut units = [0x61u16; 13];
    units[5] = 0;
    let l1 = lfn_slot(1, true, mkfs::lfn_checksum(&mkfs::n11("S1.TXT")), &units);
    let bases = [s1, l1];
    let mut viols = Vec::new();
    let mut n = 0u64;
    // single positions and all pairs of positions
    let pairs: Vec<(usize, usize)> = (0..32).flat_map(|i| (i..32).map(move |j| (i, j))).collect();
    let res: Vec<(Vec<Violation>, u64)> = par_map(pairs.len(), |pi| {
        let env = list_env();
        let (i, j) = pairs[pi];
        let mut bad = Vec::new();
        let mut c = 0u64;
        if tier == "quick" && i != j && (i + j) % 3 != 0 {
            return (bad, 0);
        }
        for base in &bases {
            for &a in &vals {
                for &b in &vals {
                    if i == j && a != b {
                        continue;
                    }
                    let mut s = *base;
                    s[i] = a;
                    s[j] = b;
                    c += 1;
                    for x in check_listing(&env, &[s, s1], 64, true) {
                        push_unique(&mut bad, Some(x));
                    }
                    for x in check_listing(&env, &[l1, s, s1], 64, true) {
                        push_unique(&mut bad, Some(x));
                    }
                }
            }
        }
        (bad, c)
    });
    for (b, c) in res {
        for x in b {
            push_unique(&mut viols, Some(x));
        }
        n += c * 2;
    }
    (viols, n)
}

pub fn replay_input(inp: &Value) -> i32 {
    let r: Vec<Violation> = match inp["kind"].as_str() {
        Some("decode") => {
            let frags: Vec<[u16; 13]> = inp["frags"]
                .as_array()
                .map(|a| {
                    a.iter()
                        .map(|f| {
                            let mut x = [0u16; 13];
                            for (i, u) in f.as_array().unwrap().iter().enumerate().take(13) {
                                x[i] = u.as_u64().unwrap_or(0) as u16;
                            }
                            x
                        })
                        .collect()
                })
                .unwrap_or_default();
            decode_case(&frags, inp["buf"].as_u64().unwrap_or(780) as usize).into_iter().collect()
        }
        Some("reuse") => {
            let parse = |k: &str| -> Vec<[u16; 13]> {
                inp[k]
                    .as_array()
                    .map(|a| {
                        a.iter()
                            .map(|f| {
                                let mut x = [0u16; 13];
                                for (i, u) in f.as_array().unwrap().iter().enumerate().take(13) {
                                    x[i] = u.as_u64().unwrap_or(0) as u16;
                                }
                                x
                            })
                            .collect()
                    })
                    .unwrap_or_default()
            };
            reuse_case(&parse("a"), &parse("b"), inp["buf"].as_u64().unwrap_or(780) as usize).into_iter().collect()
        }
        Some("listing") => {
            let slots: Vec<[u8; 32]> = inp["slots"]
                .as_array()
                .map(|a| {
                    a.iter()
                        .map(|s| {
                            let s = s.as_str().unwrap_or("");
                            let mut x = [0u8; 32];
                            for i in 0..32 {
                                x[i] = u8::from_str_radix(&s[2 * i..2 * i + 2], 16).unwrap_or(0);
                            }
                            x
                        })
                        .collect()
                })
                .unwrap_or_default();
            let env = if inp["fat32"].as_bool() == Some(true) { list_env32() } else { list_env() };
            check_listing(&env, &slots, inp["buf"].as_u64().unwrap_or(780) as usize, inp["arbitrary"].as_bool().unwrap_or(false))
        }
        _ => return 2,
    };
    if r.is_empty() {
        println!("no violation on replay");
        0
    } else {
        for x in r {
            println!("VIOLATION property=C17 signature={}\n  {}", x.sig, x.detail);
        }
        1
    }
}

pub fn run(tier: &str) -> i32 {
    let mut rep = Report::new("C17", tier, "model_checking");
    let (v1, n1) = decoder_sweep(tier);
    let (v2, n2, named) = listing_sweep(tier);
    let (v3, n3) = arbitrary_sweep(tier);
    rep.add_violations(v1);
    rep.add_violations(v2);
    rep.add_violations(v3);
    // the listing part explores the sequence/checksum state machine: states = slot sequences (directory contents)
    rep.cov("states", json!(n2));
    rep.cov("transitions", json!(n2 * 2));
    rep.cov("traces_validated_against_impl", json!(n2 * 2 + n3 * 2));
    rep.cov("evaluations", json!(n1 + n2 + n3));
    rep.cov("distinct_nontrivial", json!(n1 + named + n3));
    rep.cov("rule", json!("decoder: code-unit classes {A, U+00E9, U+20AC, high, low, NUL, 0xFFFF} at fragment boundary positions for 1, 2 and 3 fragments, all 13 positions over {A, high, low, NUL}, 1..20 uniform fragments x every buffer size 0..=780, each compared with String::from_utf16_lossy; listing: every slot sequence up to the stated length over the slot alphabet, listed by the real iterate_dir_lfn and compared with the specification's matcher; arbitrary bytes: every single and pair of byte positions of a slot over 13 values, both iterators, must not panic. Non-trivial listing cases = sequences with a start fragment that end in a short entry."));
    rep.cov("decoder_cases", json!(n1));
    rep.cov("listing_sequences", json!(n2));
    rep.cov("listing_sequences_with_candidate_run", json!(named));
    rep.cov("arbitrary_slot_cases", json!(n3));
    rep.cov("listing_alphabet", json!(listing_alphabet().iter().map(|x| x.0.clone()).collect::<Vec<_>>()));
    rep.cov("listing_max_len", json!(if tier == "quick" { 5 } else { 6 }));
    rep.cov("samples", json!([
        {"decode": {"fragments": 2, "boundary": "fragment 1 ends with a high surrogate, fragment 2 starts with a low surrogate"}},
        {"listing": ["LFN(start=true,seq=1,csum=good)", "S1", "S2(same checksum)"]},
        {"arbitrary": "slot byte 11 = 0x0F and byte 0 = 0x41"}
    ]));
    rep.assumptions.push("where only deleted slots separate run and short entry, or only a non-first fragment's checksum differs, both answers are accepted".into());
    rep.finish()
}
