//! C01 — file reads return exactly the bytes written, at every offset, in every history.

use super::common::{not_impl_only, readback_open_files, run_hist, ApiOracle, HistProp, ScenMaker};
use crate::engine::{make_cfg, Oracle, Report, Scenario, Violation};
use crate::mkfs::Geom;
use crate::scen;
use crate::world::*;
use serde_json::json;

struct ReadBack;
impl Oracle for ReadBack {
    fn check(&self, _: &Scenario, _: &[Op], _: &World, _: &Step, _: &mut Vec<Violation>) {}
    fn on_new_state(&self, sc: &Scenario, hist: &[Op], _w: &World, out: &mut Vec<Violation>) {
        let mut w = sc.replay(hist);
        readback_open_files("C01", sc, hist, &mut w, out);
    }
}

/// Two volumes on one device: FAT16 in partition 0, FAT32 in partition 1 (one shared block cache).
pub fn two_volume_device(spc16: u8, spc32: u8) -> crate::simdisk::BaseImage {
    let mut g16 = scen::g_v16a();
    g16.spc = spc16;
    let mut g32 = scen::g_v32a();
    g32.spc = spc32;
    g32.part_slot = 1;
    g32.lba_start = g16.part_end() + 17;
    scen::combine(vec![
        scen::build(g16, &Default::default()),
        scen::build(g32, &Default::default()),
    ])
}

fn alphabet(c0: u32, c1: u32, tier: &str, reduced: bool) -> Vec<Op> {
    let mut a = Vec::new();
    for f in 0..3u8 {
        let c = if f == 2 { c1 } else { c0 };
        let (wl, rl, ss, sc, se): (Vec<u32>, Vec<u32>, Vec<u32>, Vec<i32>, Vec<u32>) = if reduced {
            (
                vec![1, c - 1, c + 1],
                vec![1, c + 1],
                vec![0, c - 1, c + 1],
                vec![-1],
                vec![0, 1],
            )
        } else if tier == "quick" {
            (
                vec![1, 511, 513, c + 1, 2 * c + 7],
                vec![1, 513, 3 * c],
                vec![0, 1, 512, c, c + 1, 3 * c + 5],
                vec![-1, c as i32],
                vec![0, 1],
            )
        } else {
            (
                vec![1, 511, 512, 513, c - 1, c, c + 1, 2 * c + 7],
                vec![1, 512, 513, c + 1, 3 * c],
                vec![0, 1, 511, 512, c - 1, c, c + 1, 2 * c + 7, 3 * c + 5],
                vec![-1, 1, -(c as i32), c as i32],
                vec![0, 1, c],
            )
        };
        let mut dedup = |v: Vec<u32>| {
            let mut v = v;
            v.sort();
            v.dedup();
            v
        };
        for n in dedup(wl) {
            a.push(Op::Write { f, n });
        }
        for n in dedup(rl) {
            a.push(Op::Read { f, n });
        }
        for o in dedup(ss) {
            a.push(Op::SeekStart { f, o });
        }
        for o in sc {
            a.push(Op::SeekCur { f, o });
        }
        for o in dedup(se) {
            a.push(Op::SeekEnd { f, o });
        }
        a.push(Op::Flush { f });
        a.push(Op::Close { f });
    }
    // re-open in read-only / append / truncate mode
    for (f, d, name) in [(0u8, 0u8, 2u8), (1, 0, 0), (2, 1, 0)] {
        for mode in [M_RO, M_APPEND, M_TRUNC] {
            a.push(Op::Open { d, name, mode, f });
        }
    }
    a
}

fn prelude() -> Vec<Op> {
    vec![
        Op::OpenVol { v: 0 },
        Op::OpenVol { v: 1 },
        Op::OpenRoot { v: 0, d: 0 },
        Op::OpenRoot { v: 1, d: 1 },
        Op::Open { d: 0, name: 2, mode: M_APPEND, f: 0 }, // OLD.DAT (fragmented, backwards link)
        Op::Open { d: 0, name: 0, mode: M_CREATE, f: 1 }, // new file on the FAT16 volume
        Op::Open { d: 1, name: 0, mode: M_CREATE, f: 2 }, // new file on the FAT32 volume
    ]
}

/// Child-process probe: one write, seek and read through the embedded-io adapters.
pub fn probe_eio() -> i32 {
    let cfg = make_cfg(two_volume_device(2, 1), Front::Eio, false);
    let mut w = World::new(cfg);
    for op in prelude().into_iter().chain([Op::Write { f: 1, n: 600 }, Op::SeekStart { f: 1, o: 3 }, Op::Read { f: 1, n: 700 }]) {
        let st = w.apply(op, false);
        if !st.findings.is_empty() {
            eprintln!("{:?}: {:?}", op, st.findings);
            return 1;
        }
    }
    0
}

fn oracles() -> Vec<Box<dyn Oracle>> {
    vec![
        Box::new(ApiOracle {
            prop: "C01",
            accept: not_impl_only,
        }),
        Box::new(ReadBack),
    ]
}

fn scenarios(tier: &str) -> Vec<(String, ScenMaker)> {
    let mut out: Vec<(String, ScenMaker)> = Vec::new();
    let tier_s = tier.to_string();
    let fronts: &[Front] = if tier == "quick" { &[Front::Raw, Front::Eio] } else { &[Front::Raw, Front::Raii, Front::Eio] };
    for &front in fronts {
        let depth = if tier == "quick" {
            if front == Front::Raw {
                4
            } else {
                3
            }
        } else {
            5
        };
        let name = format!("three-files-two-volumes/{:?}/{}", front, tier);
        let (n2, t2) = (name.clone(), tier_s.clone());
        out.push((
            name,
            Box::new(move || {
                let cfg = make_cfg(two_volume_device(2, 1), front, false);
                Scenario::new(&n2, cfg, prelude(), alphabet(1024, 512, &t2, false), depth)
            }),
        ));
    }
    if tier == "thorough" {
        let name = "three-files-two-volumes/reduced-depth6".to_string();
        let (n2, t2) = (name.clone(), tier_s.clone());
        out.push((
            name,
            Box::new(move || {
                let cfg = make_cfg(two_volume_device(2, 1), Front::Raw, false);
                Scenario::new(&n2, cfg, prelude(), alphabet(1024, 512, &t2, true), 6)
            }),
        ));
    }
    // geometry sweep G at depth 2 (thorough: 3) with two files
    let spcs: &[u8] = if tier == "quick" { &[1, 4, 128] } else { &[1, 2, 4, 8, 16, 32, 64, 128] };
    for &fat32 in &[false, true] {
        for &spc in spcs {
            for &nfats in &[1u8, 2] {
                let lbas: &[u32] = if tier == "quick" { &[63] } else { &[1, 63, 2048, 0x00F0_0001] };
                for &lba in lbas {
                    if tier == "quick" && nfats == 1 && spc != 4 {
                        continue;
                    }
                    let slot = (lba % 4) as usize;
                    let gdepth = if tier == "quick" { 2 } else { 3 };
                    let name = format!(
                        "geometry/{}-spc{}-fats{}-lba{:#x}-slot{}/d{}",
                        if fat32 { "fat32" } else { "fat16" },
                        spc,
                        nfats,
                        lba,
                        slot,
                        gdepth
                    );
                    let n2 = name.clone();
                    out.push((
                        name,
                        Box::new(move || {
                            let mut g: Geom = if fat32 { scen::g_v32a() } else { scen::g_v16a() };
                            g.spc = spc;
                            g.nfats = nfats;
                            g.lba_start = lba;
                            g.part_slot = slot;
                            let cfg = make_cfg(scen::build(g.clone(), &Default::default()), Front::Raw, false);
                            let c = spc as u32 * 512;
                            let v = g.part_slot as u8;
                            let pre = vec![
                                Op::OpenVol { v },
                                Op::OpenRoot { v, d: 0 },
                                Op::Open { d: 0, name: 2, mode: M_APPEND, f: 0 },
                                Op::Open { d: 0, name: 0, mode: M_CREATE, f: 1 },
                            ];
                            let mut alpha = Vec::new();
                            for f in 0..2u8 {
                                for n in [1, 513, c + 1, 2 * c + 7] {
                                    alpha.push(Op::Write { f, n });
                                }
                                for n in [1, c + 1, 3 * c] {
                                    alpha.push(Op::Read { f, n });
                                }
                                for o in [0, 1, c - 1, c + 1] {
                                    alpha.push(Op::SeekStart { f, o });
                                }
                                alpha.push(Op::SeekCur { f, o: -1 });
                                alpha.push(Op::SeekEnd { f, o: 1 });
                            }
                            alpha.sort();
                            alpha.dedup();
                            Scenario::new(&n2, cfg, pre, alpha, gdepth)
                        }),
                    ));
                }
            }
        }
    }
    out
}

pub fn def() -> HistProp {
    HistProp {
        id: "C01",
        level: "model_checking",
        scenarios,
        oracles,
        budget_s: |t| if t == "quick" { 40 } else { 3000 },
        max_states: 6_000_000,
        assumptions: &[
            "payload bytes come from a pattern keyed by (file slot, write sequence, absolute offset)",
            "fsmodel (byte arrays per file) is the reference; out-of-space is not in this scenario",
            "state identity = Debug print of the VolumeManager + overlay + model (selftest checks it sees the cached cluster cursor)",
        ],
    }
}

pub fn run(tier: &str) -> i32 {
    let mut rep = Report::new("C01", tier, "model_checking");
    if let super::ProbeOutcome::Failed(msg) = super::run_probe("eio") {
        rep.add_violations(vec![Violation {
            prop: "C01".into(),
            sig: "eio-adapter/process-abort-or-mismatch".into(),
            detail: format!("write 600, seek 3, read 700 through embedded_io::{{Write,Seek,Read}} on a File: {}", msg),
            scenario: "probe/eio".into(),
            hist: vec![Op::Write { f: 1, n: 600 }, Op::SeekStart { f: 1, o: 3 }, Op::Read { f: 1, n: 700 }],
            input: None,
        }]);
        rep.cov("eio_front_end_skipped_after_probe_failure", json!(true));
        // the embedded-io front end would abort the explorer: explore the other front ends only
        let mut d = def();
        d.scenarios = |t| scenarios(t).into_iter().filter(|(n, _)| !n.contains("/Eio/")).collect();
        run_hist(&d, tier, &mut rep);
    } else {
        run_hist(&def(), tier, &mut rep);
    }
    rep.cov("bounds", json!({
        "files_open": 3, "volumes": 2,
        "depth": if tier == "quick" { "4 (raw), 3 (embedded-io)" } else { "5 all front ends, 6 reduced alphabet" },
        "geometry_sweep": "blocks/cluster x FAT type x FAT copies x partition offset x slot",
    }));
    rep.finish()
}
