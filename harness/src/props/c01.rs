//! C01 — file reads return exactly the bytes written, at every offset, in every history.

use super::common::{not_impl_only, readback_open_files, run_hist, ApiOracle, HistProp, ScenMaker};
use crate::engine::{make_cfg, Oracle, Report, Scenario, Violation};
use crate::mkfs::Geom;
use crate::scen;
use crate::world::*;
use serde_json::json;

struct ReadBack;
impl Oracle for ReadBack {
    fn check(&self, _: &Scenario, _: &[Op], _: &World, _: &Step, _: &mut Vec<Violation>) {}
    fn on_new_state(&self, sc: &Scenario, hist: &[Op], _w: &World, out: &mut Vec<Violation>) {
        let mut w = sc.replay(hist);
        readback_open_files("C01", sc, hist, &mut w, out);
    }
}

/// Two volumes on one device: FAT16 in partition 0, FAT32 in partition 1 (one shared block cache).
pub fn two_volume_device(spc16: u8, spc32: u8) -> crate::simdisk::BaseImage {
    let mut g16 = scen::g_v16a();
    g16.spc = spc16;
    let mut g32 = scen::g_v32a();
    g32.spc = spc32;
    g32.part_slot = 1;
    g32.lba_start = g16.part_end() + 17;
    scen::combine(vec![
        scen::build(g16, &Default::default()),
        scen::build(g32, &Default::default()),
    ])
}

fn alphabet(c0: u32, c1: u32, tier: &str, reduced: bool) -> Vec<Op> {
    let mut a = Vec::new();
    for f in 0..3u8 {
        let c = if f == 2 { c1 } else { c0 };
        let (wl, rl, ss, sc, se): (Vec<u32>, Vec<u32>, Vec<u32>, Vec<i32>, Vec<u32>) = if reduced {
            (
                vec![1, c - 1, c + 1],
                vec![1, c + 1],
                vec![0, c - 1, c + 1],
                vec![-1],
                vec![0, 1],
            )
        } else if tier == "quick" {
            (
                vec![1, 511, 513, c + 1, 2 * c + 7],
                vec![1, 513, 3 * c],
                vec![0, 1, 512, c, c + 1, 3 * c + 5],
                vec![-1, c as i32],
                vec![0, 1],
            )
        } else {
            (
                vec![1, 511, 512, 513, c - 1, c, c + 1, 2 * c + 7],
                vec![1, 512, 513, c + 1, 3 * c],
                vec![0, 1, 511, 512, c - 1, c, c + 1, 2 * c + 7, 3 * c + 5],
                vec![-1, 1, -(c as i32), c as i32],
                vec![0, 1, c],
            )
        };
        let mut dedup = |v: Vec<u32>| {
            let mut v = v;
            v.sort();
            v.dedup();
            v
        };
        for n in dedup(wl) {
            a.push(Op::Write { f, n });
        }
        for n in dedup(rl) {
            a.push(Op::Read { f, n });
        }
        for o in dedup(ss) {
            a.push(Op::SeekStart { f, o });
        }
        for o in sc {
            a.push(Op::SeekCur { f, o });
        }
        for o in dedup(se) {
            a.push(Op::SeekEnd { f, o });
        }
        a.push(Op::Flush { f });
        a.push(Op::Close { f });
    }
    // re-open in read-only / append / truncate mode
    for (f, d, name) in [(0u8, 0u8, 2u8), (1, 0, 0), (2, 1, 0)] {
        for mode in [M_RO, M_APPEND, M_TRUNC] {
            a.push(Op::Open { d, name, mode, f });
        }
    }
    a
}

fn prelude_aligned() -> Vec<Op> {
    let mut p = prelude();
    p[4] = Op::Open { d: 0, name: 26, mode: M_APPEND, f: 0 }; // ALGN.DAT: exactly three clusters
    p
}

fn prelude() -> Vec<Op> {
    vec![
        Op::OpenVol { v: 0 },
        Op::OpenVol { v: 1 },
        Op::OpenRoot { v: 0, d: 0 },
        Op::OpenRoot { v: 1, d: 1 },
        Op::Open { d: 0, name: 2, mode: M_APPEND, f: 0 }, // OLD.DAT (fragmented, backwards link)
        Op::Open { d: 0, name: 0, mode: M_CREATE, f: 1 }, // new file on the FAT16 volume
        Op::Open { d: 1, name: 0, mode: M_CREATE, f: 2 }, // new file on the FAT32 volume
    ]
}

/// Child-process probe: one write, seek and read through the embedded-io adapters.
pub fn probe_eio() -> i32 {
    let cfg = make_cfg(two_volume_device(2, 1), Front::Eio, false);
    let mut w = World::new(cfg);
    for op in prelude().into_iter().chain([Op::Write { f: 1, n: 600 }, Op::SeekStart { f: 1, o: 3 }, Op::Read { f: 1, n: 700 }]) {
        let st = w.apply(op, false);
        if !st.findings.is_empty() {
            eprintln!("{:?}: {:?}", op, st.findings);
            return 1;
        }
    }
    0
}

fn oracles() -> Vec<Box<dyn Oracle>> {
    vec![
        Box::new(ApiOracle {
            prop: "C01",
            accept: not_impl_only,
        }),
        Box::new(ReadBack),
    ]
}

fn scenarios(tier: &str) -> Vec<(String, ScenMaker)> {
    let mut out: Vec<(String, ScenMaker)> = Vec::new();
    let tier_s = tier.to_string();
    let fronts: &[Front] = if tier == "quick" { &[Front::Raw, Front::Eio] } else { &[Front::Raw, Front::Raii, Front::Eio] };
    for &front in fronts {
        let depth = if tier == "quick" {
            if front == Front::Raw {
                4
            } else {
                3
            }
        } else {
            5
        };
        let name = format!("three-files-two-volumes/{:?}/{}", front, tier);
        let (n2, t2) = (name.clone(), tier_s.clone());
        out.push((
            name,
            Box::new(move || {
                let cfg = make_cfg(two_volume_device(2, 1), front, false);
                Scenario::new(&n2, cfg, prelude(), alphabet(1024, 512, &t2, false), depth)
            }),
        ));
    }
    {
        let depth = if tier == "quick" { 3 } else { 4 };
        let name = format!("three-files-two-volumes/aligned-file/{}", tier);
        let (n2, t2) = (name.clone(), tier_s.clone());
        out.push((
            name,
            Box::new(move || {
                let cfg = make_cfg(two_volume_device(2, 1), Front::Raw, false);
                let mut a = alphabet(1024, 512, &t2, false);
                for op in a.iter_mut() {
                    if let Op::Open { d: 0, name: 2, mode, f: 0 } = *op {
                        *op = Op::Open { d: 0, name: 26, mode, f: 0 };
                    }
                }
                Scenario::new(&n2, cfg, prelude_aligned(), a, depth)
            }),
        ));
    }
    if tier == "thorough" {
        let name = "three-files-two-volumes/reduced-depth6".to_string();
        let (n2, t2) = (name.clone(), tier_s.clone());
        out.push((
            name,
            Box::new(move || {
                let cfg = make_cfg(two_volume_device(2, 1), Front::Raw, false);
                Scenario::new(&n2, cfg, prelude(), alphabet(1024, 512, &t2, true), 6)
            }),
        ));
    }
    // geometry sweep G at depth 2 (thorough: 3) with two files
    let spcs: &[u8] = if tier == "quick" { &[1, 4, 128] } else { &[1, 2, 4, 8, 16, 32, 64, 128] };
    for &fat32 in &[false, true] {
        for &spc in spcs {
            for &nfats in &[1u8, 2] {
                let lbas: &[u32] = if tier == "quick" { &[63] } else { &[1, 63, 2048, 0x00F0_0001] };
                for &lba in lbas {
                    if tier == "quick" && nfats == 1 && spc != 4 {
                        continue;
                    }
                    let slot = (lba % 4) as usize;
                    let gdepth = if tier == "quick" { 2 } else { 3 };
                    let name = format!(
                        "geometry/{}-spc{}-fats{}-lba{:#x}-slot{}/d{}",
                        if fat32 { "fat32" } else { "fat16" },
                        spc,
                        nfats,
                        lba,
                        slot,
                        gdepth
                    );
                    let n2 = name.clone();
                    out.push((
                        name,
                        Box::new(move || {
                            let mut g: Geom = if fat32 { scen::g_v32a() } else { scen::g_v16a() };
                            g.spc = spc;
                            g.nfats = nfats;
                            g.lba_start = lba;
                            g.part_slot = slot;
                            let cfg = make_cfg(scen::build(g.clone(), &Default::default()), Front::Raw, false);
                            let c = spc as u32 * 512;
                            let v = g.part_slot as u8;
                            let pre = vec![
                                Op::OpenVol { v },
                                Op::OpenRoot { v, d: 0 },
                                Op::Open { d: 0, name: 2, mode: M_APPEND, f: 0 },
                                Op::Open { d: 0, name: 0, mode: M_CREATE, f: 1 },
                            ];
                            let mut alpha = Vec::new();
                            for f in 0..2u8 {
                                for n in [1, 513, c + 1, 2 * c + 7] {
                                    alpha.push(Op::Write { f, n });
                                }
                                for n in [1, c + 1, 3 * c] {
                                    alpha.push(Op::Read { f, n });
                                }
                                for o in [0, 1, c - 1, c + 1] {
                                    alpha.push(Op::SeekStart { f, o });
                                }
                                alpha.push(Op::SeekCur { f, o: -1 });
                                alpha.push(Op::SeekEnd { f, o: 1 });
                            }
                            alpha.sort();
                            alpha.dedup();
                            Scenario::new(&n2, cfg, pre, alpha, gdepth)
                        }),
                    ));
                }
            }
        }
    }
    // FAT32 entries whose low half-word is zero: SUB/DEEP/HIGH.DAT occupies clusters 65535 -> 65536, so
    // FAT[65535] = 0x0001_0000. The hint in the information sector makes A.TXT land on cluster 65534 directly in
    // front of it; A.TXT is then truncated / deleted / regrown, so later free-cluster scans start below that entry
    // and have to pass over it. HIGH.DAT stays open read-only and is read back in every state.
    {
        let depth = if tier == "quick" { 3 } else { 4 };
        let name = format!("fat32-entry-65535/d{}", depth);
        let n2 = name.clone();
        let thorough = tier != "quick";
        out.push((
            name,
            Box::new(move || {
                let g = scen::g_v32a();
                let opts = scen::TreeOpts { fsinfo: crate::mkfs::FsInfo::Hint(65534), ..Default::default() };
                let cfg = make_cfg(scen::build(g, &opts), Front::Raw, false);
                let pre = vec![
                    Op::OpenVol { v: 0 },
                    Op::OpenRoot { v: 0, d: 0 },
                    Op::OpenDir { p: 0, name: 5, d: 1 },
                    Op::OpenDir { p: 1, name: 6, d: 2 },
                    Op::Open { d: 2, name: 27, mode: M_RO, f: 1 },
                    Op::Open { d: 0, name: 0, mode: M_CREATE, f: 0 },
                    Op::Write { f: 0, n: 1 },
                    Op::Close { f: 0 },
                ];
                let mut alpha = vec![
                    Op::Open { d: 0, name: 0, mode: M_TRUNC, f: 0 },
                    Op::Open { d: 0, name: 0, mode: M_APPEND, f: 0 },
                    Op::Open { d: 0, name: 17, mode: M_CREATE, f: 0 },
                    Op::Delete { d: 0, name: 0 },
                    Op::Close { f: 0 },
                    Op::Write { f: 0, n: 1 },
                    Op::Write { f: 0, n: 513 },
                    Op::Write { f: 0, n: 1031 },
                    Op::SeekStart { f: 1, o: 0 },
                    Op::SeekStart { f: 1, o: 512 },
                    Op::Read { f: 1, n: 1536 },
                ];
                if thorough {
                    alpha.extend([
                        Op::Open { d: 0, name: 1, mode: M_CREATE, f: 2 },
                        Op::Write { f: 2, n: 1 },
                        Op::Write { f: 2, n: 513 },
                        Op::Close { f: 2 },
                        Op::Flush { f: 0 },
                        Op::SeekStart { f: 0, o: 0 },
                        Op::Read { f: 0, n: 1536 },
                    ]);
                }
                Scenario::new(&n2, cfg, pre, alpha, depth)
            }),
        ));
    }
    // cheap scenarios first: the deep three-file searches then use whatever is left of the wall-clock budget
    out.sort_by_key(|(n, _)| n.starts_with("three-files"));
    out
}

pub fn def() -> HistProp {
    HistProp {
        id: "C01",
        level: "model_checking",
        scenarios,
        oracles,
        budget_s: |t| if t == "quick" { 40 } else { 1200 },
        max_states: 6_000_000,
        assumptions: &[
            "payload bytes come from a pattern keyed by (file slot, write sequence, absolute offset)",
            "fsmodel (byte arrays per file) is the reference; out-of-space is not in this scenario",
            "state identity = Debug print of the VolumeManager + overlay + model (selftest checks it sees the cached cluster cursor)",
        ],
    }
}

pub fn run(tier: &str) -> i32 {
    let mut rep = Report::new("C01", tier, "model_checking");
    if let super::ProbeOutcome::Failed(msg) = super::run_probe("eio") {
        rep.add_violations(vec![Violation {
            prop: "C01".into(),
            sig: "eio-adapter/process-abort-or-mismatch".into(),
            detail: format!("write 600, seek 3, read 700 through embedded_io::{{Write,Seek,Read}} on a File: {}", msg),
            scenario: "probe/eio".into(),
            hist: vec![Op::Write { f: 1, n: 600 }, Op::SeekStart { f: 1, o: 3 }, Op::Read { f: 1, n: 700 }],
            input: None,
        }]);
        rep.cov("eio_front_end_skipped_after_probe_failure", json!(true));
        // the embedded-io front end would abort the explorer: explore the other front ends only
        let mut d = def();
        d.scenarios = |t| scenarios(t).into_iter().filter(|(n, _)| !n.contains("/Eio/")).collect();
        run_hist(&d, tier, &mut rep);
    } else {
        run_hist(&def(), tier, &mut rep);
    }
    let (lv, ln) = large_file_probe();
    rep.add_violations(lv);
    rep.cov("large_file_probe_seeks", json!(ln));
    rep.cov("bounds", json!({
        "files_open": 3, "volumes": 2,
        "depth": if tier == "quick" { "4 (raw), 3 (embedded-io)" } else { "5 all front ends, 6 reduced alphabet" },
        "geometry_sweep": "blocks/cluster x FAT type x FAT copies x partition offset x slot",
    }));
    rep.finish()
}

// ---------------------------------------------------------------------------
// Large-offset probe: a formatter-made file of 2^31 + 70 000 bytes on 128-block clusters (read/seek only);
// contents are defined by the disk's filler, the chain is fragmented once in the middle.
// ---------------------------------------------------------------------------

pub fn large_file_probe() -> (Vec<Violation>, u64) {
    use crate::mkfs::{FsInfo, Mk};
    use crate::simdisk::{Clock, Image, Rd, SimDisk};
    use embedded_sdmmc::{Mode, VolumeIdx, VolumeManager};
    let mut out = Vec::new();
    let mut g = scen::g_v32a();
    g.spc = 128;
    g.clusters = 70_000;
    g.lba_start = 0x0010_0001;
    let cb = g.cluster_bytes() as u64;
    let size: u64 = (1u64 << 31) + 70_000;
    let nclusters = size.div_ceil(cb) as u32;
    let mut mk = Mk::new(g.clone());
    let root = mk.root();
    // chain: clusters 10.., with one backwards jump in the middle
    let half = nclusters / 2;
    let mut chain: Vec<u32> = (0..half).map(|i| 40_000 + i).collect();
    chain.extend((0..nclusters - half).map(|i| 10 + i));
    mk.file_nodata(root, "BIG.DAT", 0x20, &chain, size as u32);
    let base = std::sync::Arc::new(mk.finish(FsInfo::Correct));
    let img = Image::new(base.clone());
    let expect = |off: u64, n: usize| -> Vec<u8> {
        (0..n as u64)
            .map(|i| {
                let o = off + i;
                let c = chain[(o / cb) as usize];
                let blk = g.cluster_block(c) + ((o % cb) / 512) as u32;
                base.rd(blk)[(o % 512) as usize]
            })
            .collect()
    };
    let r = crate::util::catch_quiet(|| -> Result<Vec<(String, String)>, String> {
        let mut bad = Vec::new();
        let vm: VolumeManager<SimDisk, Clock, 4, 4, 1> = VolumeManager::new(SimDisk::new(img.clone()), Clock::new());
        let v = vm.open_raw_volume(VolumeIdx(0)).map_err(|e| format!("{:?}", e))?;
        let d = vm.open_root_dir(v).map_err(|e| format!("{:?}", e))?;
        let f = vm.open_file_in_dir(d, "BIG.DAT", Mode::ReadOnly).map_err(|e| format!("{:?}", e))?;
        if vm.file_length(f).ok() != Some(size as u32) {
            bad.push(("large-file/length".into(), format!("file_length = {:?}, directory entry says {}", vm.file_length(f).ok(), size)));
        }
        let two31 = 1u64 << 31;
        let targets: [u64; 9] = [two31 - 1, two31, two31 + 1, size - 1, cb * half as u64 - 3, 0, size - 600, two31 - 513, 65_535];
        for (k, &t) in targets.iter().enumerate() {
            // alternate the three seek flavours
            let r = match k % 3 {
                0 => vm.file_seek_from_start(f, t as u32),
                1 => vm.file_seek_from_end(f, (size - t) as u32),
                _ => {
                    let cur = vm.file_offset(f).unwrap_or(0) as i64;
                    let mut delta = t as i64 - cur;
                    let mut r = Ok(());
                    while delta != 0 && r.is_ok() {
                        let step = delta.clamp(i32::MIN as i64, i32::MAX as i64);
                        r = vm.file_seek_from_current(f, step as i32);
                        delta -= step;
                    }
                    r
                }
            };
            if let Err(e) = r {
                bad.push(("large-file/seek-refused".into(), format!("seek to {} (flavour {}) -> {:?}", t, k % 3, e)));
                continue;
            }
            if vm.file_offset(f).ok() != Some(t as u32) {
                bad.push(("large-file/offset".into(), format!("after seek to {} the offset is {:?}", t, vm.file_offset(f).ok())));
                continue;
            }
            let n = 700usize.min((size - t) as usize);
            let mut buf = vec![0u8; 700];
            match vm.read(f, &mut buf) {
                Ok(got) => {
                    if got != n || buf[..n] != expect(t, n)[..] {
                        bad.push(("large-file/read-data".into(), format!("read of 700 at offset {}: got {} bytes, expected {}; data {}", t, got, n, if got == n { "differs" } else { "n/a" })));
                    }
                    let eof = vm.file_eof(f).unwrap_or(false);
                    if eof != (t + n as u64 == size) {
                        bad.push(("large-file/eof".into(), format!("file_eof = {} at offset {}", eof, t + n as u64)));
                    }
                }
                Err(e) => bad.push(("large-file/read-error".into(), format!("read at offset {} -> {:?}", t, e))),
            }
        }
        // invalid seeks must be refused
        if vm.file_seek_from_start(f, size as u32 + 1).is_ok() {
            bad.push(("large-file/invalid-seek-accepted".into(), "seek_from_start(len + 1) accepted".into()));
        }
        vm.file_seek_from_start(f, 0).ok();
        if vm.file_seek_from_current(f, -1).is_ok() {
            bad.push(("large-file/invalid-seek-accepted".into(), "seek_from_current(-1) at offset 0 accepted".into()));
        }
        Ok(bad)
    });
    let mk_v = |sig: String, detail: String| Violation {
        prop: "C01".into(),
        sig,
        detail,
        scenario: "probe/large-file".into(),
        hist: vec![],
        input: None,
    };
    match r {
        crate::util::Caught::Ok(Ok(bad)) => {
            for (s, d) in bad {
                out.push(mk_v(s, d));
            }
        }
        crate::util::Caught::Ok(Err(e)) => out.push(mk_v("large-file/cannot-open".into(), e)),
        crate::util::Caught::Panic(m) => out.push(mk_v("large-file/panic".into(), m)),
    }
    (out, 9)
}
