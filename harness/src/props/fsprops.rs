//! C02, C03, C04, C05, C16 — medium-level oracles over mutation histories.

use super::common::{HistProp, ScenMaker};
use crate::engine::{make_cfg, viol, Oracle, Scenario, VolCtx, Violation};
use crate::medium::{remount_dump, view, View};
use crate::mkfs::{FsInfo, Geom};
use crate::refat;
use crate::scen::{self, TreeOpts};
use crate::simdisk::{Image, Rd};
use crate::util::le32;
use crate::world::*;
use std::collections::BTreeSet;

/// One violation per signature and oracle call is enough (a medium that exposes garbage yields thousands of problems per
/// image, each with a copy of the history).
fn push_u(out: &mut Vec<Violation>, v: Violation) {
    if !out.iter().any(|x| x.sig == v.sig) {
        out.push(v);
    }
}


// ---------------------------------------------------------------------------
// Scenario family
// ---------------------------------------------------------------------------

#[derive(Clone, Copy, Debug, PartialEq, Eq)]
pub enum VolKind {
    V16a,
    V16b,
    V32a,
    V32b,
    /// FAT16 with 64-block (32 KiB) clusters at a large partition offset
    V16c,
    /// the largest FAT16 volume (65524 clusters); nearly-full layouts leave its highest clusters free
    V16d,
}

impl VolKind {
    pub fn geom(&self) -> Geom {
        match self {
            VolKind::V16a => scen::g_v16a(),
            VolKind::V16b => scen::g_v16b(),
            VolKind::V32a => scen::g_v32a(),
            VolKind::V32b => scen::g_v32b(),
            VolKind::V16c => {
                let mut g = scen::g_v16a();
                g.spc = 64;
                g.lba_start = 0x00F0_0001;
                g.root_entries = 512;
                g.clusters = 4200;
                g
            }
            VolKind::V16d => {
                let mut g = scen::g_v16a();
                g.clusters = 65524;
                g
            }
        }
    }
    pub fn name(&self) -> &'static str {
        match self {
            VolKind::V16a => "V16a",
            VolKind::V16b => "V16b",
            VolKind::V32a => "V32a",
            VolKind::V32b => "V32b",
            VolKind::V16c => "V16c",
            VolKind::V16d => "V16d",
        }
    }
}

#[derive(Clone, Debug)]
pub struct MutOpts {
    pub kind: VolKind,
    pub free: Option<usize>,
    pub root_free_slots: Option<usize>,
    pub sub_free_slots: usize,
    pub fsinfo: FsInfo,
    pub depth: usize,
    pub moving_clock: bool,
    pub alphabet: Alpha,
    pub victim: bool,
    pub front: Front,
}

#[derive(Clone, Copy, Debug, PartialEq, Eq)]
pub enum Alpha {
    /// create/open/write/flush/close/delete/mkdir in root and SUB
    Mutate,
    /// coarse operations for fill/delete/refill cycles
    Space,
    /// Mutate plus failing calls (clashes, invalid names, full root)
    MutateFail,
}

pub fn mut_name(o: &MutOpts, prefix: &str) -> String {
    format!(
        "{}{}/{}-free{}-root{}-sub{}-{:?}-{:?}-d{}",
        prefix,
        if o.front == Front::Raw { String::new() } else { format!("-{:?}", o.front) },
        o.kind.name(),
        o.free.map(|f| f.to_string()).unwrap_or("many".into()),
        o.root_free_slots.map(|f| f.to_string()).unwrap_or("std".into()),
        o.sub_free_slots,
        o.fsinfo,
        o.alphabet,
        o.depth
    )
}

pub fn mut_prelude() -> Vec<Op> {
    vec![
        Op::OpenVol { v: 0 },
        Op::OpenRoot { v: 0, d: 0 },
        Op::OpenDir { p: 0, name: 5, d: 1 },
    ]
}

pub fn mut_alphabet(a: Alpha, c: u32) -> Vec<Op> {
    let mut v = Vec::new();
    match a {
        Alpha::Mutate | Alpha::MutateFail => {
            for f in 0..2u8 {
                for (d, name) in [(0u8, 0u8), (0, 2), (1, 0), (1, 1)] {
                    for mode in [M_RO, M_APPEND, M_TRUNC, M_CREATE_TRUNC, M_CREATE_APPEND] {
                        v.push(Op::Open { d, name, mode, f });
                    }
                }
                // the cluster-aligned file: append and truncate
                for mode in [M_APPEND, M_TRUNC] {
                    v.push(Op::Open { d: 0, name: 26, mode, f });
                }
                for n in [1, c + 1] {
                    v.push(Op::Write { f, n });
                }
                v.push(Op::Flush { f });
                v.push(Op::Close { f });
            }
            for (d, name) in [(0u8, 0u8), (0, 2), (1, 0), (1, 1), (0, 26), (0, 4)] {
                v.push(Op::Delete { d, name });
            }
            for (d, name) in [(0u8, 7u8), (1, 7)] {
                v.push(Op::Mkdir { d, name });
            }
            if a == Alpha::MutateFail {
                v.push(Op::Mkdir { d: 0, name: 0 }); // clash with a file (when present)
                v.push(Op::Mkdir { d: 0, name: 5 }); // clash with SUB
                v.push(Op::Mkdir { d: 1, name: 11 }); // invalid name
                v.push(Op::Open { d: 0, name: 5, mode: M_CREATE_TRUNC, f: 0 }); // directory as file
                v.push(Op::Open { d: 0, name: 3, mode: M_TRUNC, f: 0 }); // read-only file
                v.push(Op::Open { d: 0, name: 17, mode: M_CREATE, f: 0 });
                v.push(Op::Open { d: 0, name: 18, mode: M_CREATE, f: 0 });
                v.push(Op::Delete { d: 0, name: 5 }); // directory
                v.push(Op::Delete { d: 0, name: 13 }); // missing
                for f in 0..2u8 {
                    v.push(Op::Write { f, n: 3 * c + 7 });
                }
            }
        }
        Alpha::Space => {
            for f in 0..2u8 {
                for (d, name) in [(0u8, 0u8), (1, 1)] {
                    for mode in [M_CREATE_TRUNC, M_CREATE_APPEND] {
                        v.push(Op::Open { d, name, mode, f });
                    }
                }
                v.push(Op::Fill { f });
                v.push(Op::Write { f, n: c + 1 });
                v.push(Op::Close { f });
            }
            v.push(Op::Open { d: 0, name: 26, mode: M_APPEND, f: 0 });
            v.push(Op::Delete { d: 0, name: 0 });
            v.push(Op::Delete { d: 1, name: 1 });
            v.push(Op::Delete { d: 0, name: 26 });
            v.push(Op::Mkdir { d: 0, name: 7 });
            v.push(Op::Mkdir { d: 1, name: 7 });
        }
    }
    v
}

pub fn mut_scenario(o: &MutOpts, prefix: &str) -> Scenario {
    let g = o.kind.geom();
    let to = TreeOpts {
        tree: true,
        sub_free_slots: o.sub_free_slots,
        root_free_slots: o.root_free_slots,
        free: o.free,
        fsinfo: o.fsinfo,
        free_top: o.kind == VolKind::V16d,
    };
    let mut img = scen::build(g.clone(), &to);
    if o.victim {
        scen::add_victim(&mut img, &g, 1);
    }
    let cfg = make_cfg(img, o.front, o.moving_clock);
    let mut alpha = mut_alphabet(o.alphabet, g.cluster_bytes());
    if o.free.is_none() {
        // filling a volume with tens of thousands of free clusters says nothing new and costs seconds per call
        alpha.retain(|op| !matches!(op, Op::Fill { .. }));
    }
    let mut sc = Scenario::new(&mut_name(o, prefix), cfg, mut_prelude(), alpha, o.depth);
    if matches!(o.alphabet, Alpha::Mutate | Alpha::MutateFail) && o.free.is_none() {
        // a new directory filled past its first block and first cluster (15+ creates: far beyond the BFS depth),
        // then thinned out again
        let mut script = vec![Op::Mkdir { d: 0, name: 7 }, Op::OpenDir { p: 0, name: 7, d: 2 }];
        let names: [u8; 19] = [0, 1, 2, 3, 4, 13, 16, 17, 18, 19, 20, 21, 22, 23, 24, 25, 26, 5, 6];
        let count = if g.spc >= 4 { 19 } else { 17 };
        for &n in names.iter().take(count) {
            script.push(Op::Open { d: 2, name: n, mode: M_CREATE, f: 0 });
            if n == 2 || n == 23 {
                script.push(Op::Write { f: 0, n: g.cluster_bytes() + 1 });
            }
            script.push(Op::Close { f: 0 });
        }
        script.push(Op::List { d: 2 });
        for n in [0u8, 23, 2] {
            script.push(Op::Delete { d: 2, name: n });
        }
        script.push(Op::Open { d: 2, name: 0, mode: M_CREATE, f: 0 });
        script.push(Op::Close { f: 0 });
        script.push(Op::Mkdir { d: 2, name: 7 });
        script.push(Op::List { d: 2 });
        script.push(Op::CloseDir { d: 2 });
        sc.scripts.push(("fill-new-directory".into(), script));
    }
    // canonical file slot: an Open may only use the lowest free file slot
    sc.tag = Some(std::sync::Arc::new((o.clone(), prefix.to_string())));
    sc.filter = Some(Box::new(|w: &World, op: &Op| match op {
        Op::Open { f, .. } => (0..NF).find(|&i| w.files[i].is_none()) == Some(*f as usize),
        _ => true,
    }));
    sc
}

fn maker(o: MutOpts, prefix: &'static str) -> (String, ScenMaker) {
    let name = mut_name(&o, prefix);
    (name, Box::new(move || mut_scenario(&o, prefix)))
}

fn base_opts(kind: VolKind, free: Option<usize>, depth: usize, alphabet: Alpha) -> MutOpts {
    MutOpts {
        kind,
        free,
        root_free_slots: None,
        sub_free_slots: 1,
        fsinfo: FsInfo::Correct,
        depth,
        moving_clock: false,
        alphabet,
        victim: true,
        front: Front::Raw,
    }
}

/// The volume of the (single-volume) mutation scenarios.
fn vc(sc: &Scenario) -> &VolCtx {
    &sc.vols[0]
}

/// Path ("/SUB/A.TXT") of a model file handle / directory + name.
fn path_of(dir: &[[u8; 11]], name: Option<&[u8; 11]>) -> String {
    let mut s = String::new();
    for d in dir {
        s.push('/');
        s.push_str(&key_str(d));
    }
    if let Some(n) = name {
        s.push('/');
        s.push_str(&key_str(n));
    }
    s
}

/// Paths the operation legitimately works on: (object path, parent directory path).
fn targets(w_pre: &Model, op: &Op) -> (Option<String>, Option<String>) {
    let dirp = |d: u8| w_pre.dirs[d as usize].as_ref().map(|x| x.path.clone());
    match *op {
        Op::Open { d, name, .. } | Op::Delete { d, name } | Op::Mkdir { d, name } => {
            let Some(dp) = dirp(d) else { return (None, None) };
            let k = crate::names83::norm83(NAMES[name as usize]);
            let parent = if dp.is_empty() { "/".to_string() } else { path_of(&dp, None) };
            (k.map(|k| path_of(&dp, Some(&k))), Some(parent))
        }
        Op::Write { f, .. } | Op::Fill { f } | Op::Flush { f } | Op::Close { f } | Op::Read { f, .. } | Op::SeekStart { f, .. } | Op::SeekCur { f, .. } | Op::SeekEnd { f, .. } => {
            match w_pre.files[f as usize].as_ref() {
                Some(h) => {
                    let parent = if h.dir.is_empty() { "/".to_string() } else { path_of(&h.dir, None) };
                    (Some(path_of(&h.dir, Some(&h.name))), Some(parent))
                }
                None => (None, None),
            }
        }
        _ => (None, None),
    }
}

// ---------------------------------------------------------------------------
// C03 — structural soundness after every call
// ---------------------------------------------------------------------------

pub struct Fsck;

fn problem_set(v: &View) -> BTreeSet<(String, String)> {
    v.tree.problems.iter().map(|p| (p.kind.clone(), p.detail.clone())).collect()
}

impl Oracle for Fsck {
    fn check(&self, sc: &Scenario, hist: &[Op], _w: &World, st: &Step, out: &mut Vec<Violation>) {
        let (Some(pre), Some(post)) = (&st.pre, &st.post) else { return };
        let vpost = view(vc(sc), post);
        if vpost.tree.problems.is_empty() {
            return;
        }
        let ppre = problem_set(&view(vc(sc), pre));
        for p in &vpost.tree.problems {
            if !ppre.contains(&(p.kind.clone(), p.detail.clone())) {
                let okk = if st.res.is_ok() { "ok" } else { "err" };
                push_u(out, viol("C03", format!("fsck/{}@{}/{}", p.kind, st.op.kind(), okk), format!("after {} -> {}: {}", st.op.show(), st.res.class(), p.detail), sc, hist));
            }
        }
    }
    fn on_new_state(&self, sc: &Scenario, hist: &[Op], w: &World, out: &mut Vec<Violation>) {
        // (ii) the same with the pending state of open files flushed
        if !w.m.any_file_open() {
            return;
        }
        let mut w2 = sc.replay(hist);
        for f in 0..NF as u8 {
            if w2.files[f as usize].is_some() && !w2.dead {
                w2.apply(Op::Flush { f }, false);
            }
        }
        if w2.dead {
            return;
        }
        let img = w2.disk.image();
        let v = view(vc(sc), &img);
        // problems already visible without the flush are reported by `check`
        let raw = problem_set(&view(vc(sc), &w.disk.image()));
        for p in &v.tree.problems {
            if !raw.contains(&(p.kind.clone(), p.detail.clone())) {
                push_u(out, viol("C03", format!("fsck-flushed/{}", p.kind), format!("after flushing every open file: {}", p.detail), sc, hist));
            }
        }
    }
}

// ---------------------------------------------------------------------------
// C04 — every device write stays where it may
// ---------------------------------------------------------------------------

pub struct WriteBounds;

impl Oracle for WriteBounds {
    fn check(&self, sc: &Scenario, hist: &[Op], w: &World, st: &Step, out: &mut Vec<Violation>) {
        let (Some(pre), Some(post)) = (&st.pre, &st.post) else { return };
        let vcx = vc(sc);
        let v = &vcx.vol;
        let writes: Vec<&crate::simdisk::Call> = st.log.iter().filter(|c| c.write && c.ok).collect();
        if writes.is_empty() {
            return;
        }
        let mut push = |sig: String, detail: String| push_u(out, viol("C04", format!("{}@{}", sig, st.op.kind()), format!("{} -> {}: {}", st.op.show(), st.res.class(), detail), sc, hist));
        let fat_lo = v.lba + v.reserved;
        let fat_hi = fat_lo + v.nfats * v.fatsz;
        let root_lo = v.lba + v.root_start;
        let data_lo = v.lba + v.first_data;
        let data_hi = v.data_end();
        // (a) region of every written block
        for c in &writes {
            let b = c.idx;
            if b < v.lba || b >= v.lba.saturating_add(v.total) {
                push("region/outside-partition".into(), format!("block {} written; partition is [{}, {})", b, v.lba, v.lba + v.total));
            } else if b == v.lba {
                push("region/boot-sector".into(), format!("boot sector {} written", b));
            } else if b < fat_lo {
                if v.fat32 && b == v.lba + v.fsinfo {
                    let (p, q) = (pre.rd(b), c.data.as_ref().unwrap());
                    if (0..512).any(|i| !(488..496).contains(&i) && p[i] != q[i]) {
                        push("region/info-sector-other-bytes".into(), format!("information sector {} changed outside bytes 488..496", b));
                    }
                } else {
                    push("region/reserved-area".into(), format!("reserved block {} written", b));
                }
            } else if b >= data_hi {
                push("region/past-last-cluster".into(), format!("block {} written; the last cluster ends at {}", b, data_hi));
            }
        }
        // (b) FAT entries
        let vpre = view(vcx, pre);
        let vpost = view(vcx, post);
        let (tgt, parent) = targets(&sc_model_pre(sc, hist), &st.op);
        let allowed_owner = |o: &String| Some(o) == tgt.as_ref() || Some(o) == parent.as_ref();
        for copy in 0..v.nfats as usize {
            let (a, b) = (&vpre.fats[copy], &vpost.fats[copy]);
            for c in 0..a.len() {
                if a[c] == b[c] {
                    continue;
                }
                if c < 2 {
                    push("fat/reserved-entry-changed".into(), format!("FAT copy {} entry {} changed {:#x} -> {:#x}", copy, c, a[c], b[c]));
                    continue;
                }
                if v.fat32 && (a[c] ^ b[c]) & 0xF000_0000 != 0 {
                    push("fat/high-nibble-changed".into(), format!("FAT32 entry {} reserved bits changed {:#x} -> {:#x}", c, a[c], b[c]));
                }
                if refat::low(v, a[c]) != 0 {
                    if let Some(o) = vpre.tree.owner_of(c as u32) {
                        if !allowed_owner(o) {
                            push("fat/entry-of-foreign-chain-changed".into(), format!("FAT entry {} belongs to {} but was changed {:#x} -> {:#x}", c, o, a[c], b[c]));
                        }
                    }
                }
            }
            // slack entries behind the last cluster, and the rest of the FAT region
            let per = if v.fat32 { 128 } else { 256 };
            let last_sector = (a.len() - 1) / per;
            for s in last_sector as u32..v.fatsz {
                let blk = v.fat_block(copy as u32, s);
                let (p, q) = (pre.rd(blk), post.rd(blk));
                let esz = if v.fat32 { 4 } else { 2 };
                for i in 0..per {
                    let n = s as usize * per + i;
                    if n >= a.len() && p[i * esz..i * esz + esz] != q[i * esz..i * esz + esz] {
                        push("fat/slack-entry-changed".into(), format!("FAT copy {} slack entry {} (volume has clusters 2..{}) changed", copy, n, v.clusters + 1));
                    }
                }
            }
        }
        // (c) data area and root directory region: every changed byte must be explained
        let changed: BTreeSet<u32> = writes.iter().map(|c| c.idx).filter(|&b| (b >= root_lo && b < data_hi) && pre.rd(b) != post.rd(b)).collect();
        if changed.is_empty() {
            return;
        }
        // slots the call owns
        let mut slots: Vec<(u32, usize)> = Vec::new();
        if let Some(t) = &tgt {
            for tr in [&vpre.tree, &vpost.tree] {
                if let Some(n) = tr.find(t) {
                    slots.push((n.ent.block, n.ent.off));
                }
            }
        }
        // file range written, mapped through the chain after the call (flushed on a scratch replay)
        let mut range_blocks: Vec<(u32, u64)> = Vec::new(); // (block, file offset of its first byte)
        let mut range: (u64, u64) = (0, 0);
        if let Op::Write { f, .. } | Op::Fill { f } = st.op {
            let pre_m = sc_model_pre(sc, hist);
            if let (Some(hpre), Some(hpost)) = (pre_m.files[f as usize].as_ref(), w.m.files[f as usize].as_ref()) {
                range = (hpre.off as u64, hpost.off as u64);
                let mut w2 = sc.replay(hist);
                if !w2.dead && w2.files[f as usize].is_some() {
                    w2.apply(Op::Flush { f }, false);
                    let img2 = w2.disk.image();
                    let v2 = view(vcx, &img2);
                    if let Some(n) = tgt.as_ref().and_then(|t| v2.tree.find(t)) {
                        for (k, &cl) in n.chain.iter().enumerate() {
                            for j in 0..v.spc {
                                range_blocks.push((v.cluster_block(cl) + j, k as u64 * v.cb() as u64 + j as u64 * 512));
                            }
                        }
                    }
                }
            }
        }
        // Walk the write log: a data block of a cluster that is free *at that moment* must not be written;
        // a cluster that was free before the call and is allocated by the call (even if released again) is the call's own.
        let mut own_clusters: BTreeSet<u32> = BTreeSet::new();
        {
            let mut cur = pre.clone();
            for c in &writes {
                let b = c.idx;
                if b >= data_lo && b < data_hi {
                    let cl = 2 + (b - data_lo) / v.spc;
                    let e = {
                        let per = if v.fat32 { 128 } else { 256 };
                        let blk = cur.rd(v.fat_block(0, cl / per));
                        let i = (cl % per) as usize;
                        if v.fat32 { le32(&blk, i * 4) & 0x0FFF_FFFF } else { crate::util::le16(&blk, i * 2) as u32 }
                    };
                    let was_free = refat::low(v, vpre.fats[0][cl as usize]) == 0;
                    if e == 0 {
                        push("data/write-into-free-cluster".into(), format!("block {} of cluster {} written while that cluster is marked free", b, cl));
                    } else if was_free {
                        own_clusters.insert(cl);
                    }
                }
                cur.put(b, c.data.as_ref().unwrap());
            }
        }
        for b in changed {
            let (p, q) = (pre.rd(b), post.rd(b));
            if b >= data_lo {
                let cl = 2 + (b - data_lo) / v.spc;
                if own_clusters.contains(&cl) {
                    continue; // newly allocated by this call
                }
                if refat::low(v, vpre.fats[0][cl as usize]) == 0 {
                    continue; // already reported above
                }
            }
            let base = range_blocks.iter().find(|x| x.0 == b).map(|x| x.1);
            for i in 0..512usize {
                if p[i] == q[i] {
                    continue;
                }
                let in_slot = slots.iter().any(|(sb, so)| *sb == b && i >= *so && i < *so + 32);
                let in_range = base.map(|o| o + i as u64 >= range.0 && o + (i as u64) < range.1).unwrap_or(false);
                if !in_slot && !in_range {
                    let owner = if b >= data_lo { vpre.tree.owner_of(2 + (b - data_lo) / v.spc).cloned() } else { Some("FAT16 root directory".into()) };
                    let kind = if base.is_some() { "data/file-bytes-outside-requested-range" } else if slots.iter().any(|(sb, _)| *sb == b) { "data/neighbouring-directory-slot-changed" } else { "data/stray-write" };
                    push(kind.into(), format!("block {} byte {} changed ({:#04x} -> {:#04x}); block belongs to {:?}; requested file range {:?}", b, i, p[i], q[i], owner, range));
                    break;
                }
            }
        }
    }
}

/// The model before the last operation of `hist`.
fn sc_model_pre(sc: &Scenario, hist: &[Op]) -> Model {
    sc.replay(&hist[..hist.len() - 1]).m
}

// ---------------------------------------------------------------------------
// C05 — space is neither leaked nor invented
// ---------------------------------------------------------------------------

pub struct Space;

impl Oracle for Space {
    fn check(&self, sc: &Scenario, hist: &[Op], w: &World, st: &Step, out: &mut Vec<Violation>) {
        let (Some(pre), Some(post)) = (&st.pre, &st.post) else { return };
        let vcx = vc(sc);
        let v = &vcx.vol;
        // capacity: a fill from the end of a file accepts exactly (room in last cluster + free clusters * C)
        if let (Op::Fill { f }, Res::Filled(total, e)) = (&st.op, &st.res) {
            let pre_m = sc_model_pre(sc, hist);
            if let Some(h) = pre_m.files[*f as usize].as_ref() {
                let len = pre_m.file(h).map(|x| x.data.len() as u64).unwrap_or(0);
                if h.off as u64 == len && h.mode != M_RO {
                    let vpre = view(vcx, pre);
                    let cb = v.cb() as u64;
                    let room = if len == 0 { 0 } else { (cb - len % cb) % cb };
                    // a file created earlier in this history may already hold a cluster although it is empty
                    let want = room + vpre.free(vcx) as u64 * cb;
                    let got = w.m.files[*f as usize].as_ref().map(|x| x.off as u64 - h.off as u64).unwrap_or(*total);
                    let holds_cluster_while_empty = len == 0 && got == want + cb;
                    if got != want && !holds_cluster_while_empty {
                        let dir = if got > want { "more-than-capacity" } else { "less-than-capacity" };
                        push_u(out, viol(
                            "C05",
                            format!("capacity/{}@fill", dir),
                            format!("{} free clusters of {} bytes and {} bytes of room in the last cluster: {} bytes should fit, {} were accepted before {:?}", vpre.free(vcx), cb, room, want, got, e),
                            sc,
                            hist,
                        ));
                    }
                }
            }
        }
        if let (Op::Write { .. }, Res::Err(e)) = (&st.op, &st.res) {
            if matches!(e, E::DiskFull | E::NotEnoughSpace) {
                // a single write may only fail for lack of space when it really does not fit
                let pre_m = sc_model_pre(sc, hist);
                if let Op::Write { f, n } = st.op {
                    if let Some(h) = pre_m.files[f as usize].as_ref() {
                        let len = pre_m.file(h).map(|x| x.data.len() as u64).unwrap_or(0);
                        let vpre = view(vcx, pre);
                        let cb = v.cb() as u64;
                        let cap_now = if len == 0 { 0 } else { len.div_ceil(cb) * cb };
                        let need_end = h.off as u64 + n as u64;
                        let fits = need_end <= cap_now + vpre.free(vcx) as u64 * cb;
                        if fits {
                            push_u(out, viol(
                                "C05",
                                "capacity/write-refused-although-it-fits@write".into(),
                                format!("write of {} at offset {} (length {}) refused with {:?} although {} clusters are free", n, h.off, len, e, vpre.free(vcx)),
                                sc,
                                hist,
                            ));
                        }
                    }
                }
            }
        }
        // a create / mkdir may only be refused for lack of space when the directory really has no free slot and cannot
        // grow (FAT16 root, or no free cluster), or - mkdir - when there is no cluster for the new directory
        if let (Op::Open { d, .. } | Op::Mkdir { d, .. }, Res::Err(e)) = (&st.op, &st.res) {
            if matches!(e, E::DiskFull | E::NotEnoughSpace) {
                let pre_m = sc_model_pre(sc, hist);
                if let Some(md) = pre_m.dirs[*d as usize].as_ref() {
                    let vpre = view(vcx, pre);
                    let fat = vcx.fat(pre, 0);
                    let loc = if md.path.is_empty() {
                        Some(refat::root_loc(v))
                    } else {
                        vpre.tree.find(&path_of(&md.path, None)).map(|n| refat::DirLoc::Chain(n.ent.cluster))
                    };
                    if let Some(loc) = loc {
                        let (slots, _, _) = refat::dir_slots(pre, v, &fat, loc);
                        let has_free_slot = slots.iter().any(|s| s.raw[0] == 0x00 || s.raw[0] == 0xE5);
                        let growable = !matches!(loc, refat::DirLoc::Root16);
                        let free = vpre.free(vcx) as u64;
                        let is_mkdir = matches!(st.op, Op::Mkdir { .. });
                        let room = if is_mkdir { (has_free_slot && free >= 1) || (growable && free >= 2) } else { has_free_slot || (growable && free >= 1) };
                        if room {
                            push_u(out, viol(
                                "C05",
                                format!("capacity/refused-although-there-is-room@{}", st.op.kind()),
                                format!("{} -> Err({:?}) although the directory {} and {} clusters are free", st.op.show(), e, if has_free_slot { "has a free slot" } else { "can grow" }, free),
                                sc,
                                hist,
                            ));
                        }
                    }
                }
            }
        }
        // leaks: when no file is open, clusters in use = union of live chains (differential against the flushed pre-state)
        if w.m.any_file_open() || w.dead {
            return;
        }
        let vpost = view(vcx, post);
        let lost_post = vpost.lost(vcx);
        if lost_post.is_empty() {
            return;
        }
        // pre-state with every open file flushed
        let mut w2 = sc.replay(&hist[..hist.len() - 1]);
        for f in 0..NF as u8 {
            if w2.files[f as usize].is_some() && !w2.dead {
                w2.apply(Op::Flush { f }, false);
            }
        }
        let lost_pre = view(vcx, &w2.disk.image()).lost(vcx);
        let new: Vec<u32> = lost_post.iter().filter(|c| !lost_pre.contains(c)).cloned().collect();
        if !new.is_empty() {
            let okk = if st.res.is_ok() { "ok" } else { "err" };
            push_u(out, viol(
                "C05",
                format!("leak/clusters-in-use-but-unreferenced@{}/{}", st.op.kind(), okk),
                format!("{} -> {}: clusters {:?} are marked in use but belong to no file or directory (no file is open)", st.op.show(), st.res.class(), &new[..new.len().min(8)]),
                sc,
                hist,
            ));
        }
    }
}

// ---------------------------------------------------------------------------
// C16 — FAT copies identical, FSInfo truthful
// ---------------------------------------------------------------------------

pub struct FatCopies;

impl Oracle for FatCopies {
    fn check(&self, sc: &Scenario, hist: &[Op], _w: &World, st: &Step, out: &mut Vec<Violation>) {
        let (Some(pre), Some(post)) = (&st.pre, &st.post) else { return };
        let vcx = vc(sc);
        let v = &vcx.vol;
        if v.nfats > 1 {
            // byte-identical copies (whole FAT region including slack)
            // the formatter writes identical copies (checked by the self-test), so only blocks written since can differ
            let differs = |img: &Image| -> Option<u32> {
                let lo = v.fat_block(0, 0);
                let hi = lo + 2 * v.fatsz;
                img.overlay.range(lo..hi).map(|(b, _)| (*b - lo) % v.fatsz).find(|&s| img.rd(v.fat_block(0, s)) != img.rd(v.fat_block(1, s)))
            };
            if let Some(s) = differs(post) {
                if differs(pre).is_none() {
                    let okk = if st.res.is_ok() { "ok" } else { "err" };
                    push_u(out, viol("C16", format!("fat-copies-differ@{}/{}", st.op.kind(), okk), format!("{} -> {}: FAT sector {} differs between the two copies", st.op.show(), st.res.class(), s), sc, hist));
                }
            }
        }
        if !v.fat32 {
            return;
        }
        let is_sync = matches!(st.op, Op::Flush { .. } | Op::Close { .. } | Op::CloseVol { .. }) && st.res.is_ok();
        if !is_sync {
            return;
        }
        let info_blk = v.lba + v.fsinfo;
        let base_info = sc.cfg.base.rd(info_blk);
        let (free0, next0) = (le32(&base_info, 488), le32(&base_info, 492));
        let pi = post.rd(info_blk);
        let (free1, next1) = (le32(&pi, 488), le32(&pi, 492));
        let scan0 = refat::count_free(&vcx.fat0[0].raw, v) as i64;
        let scan1 = refat::count_free(&vcx.fat(post, 0), v) as i64;
        if free0 == 0xFFFF_FFFF {
            if free1 != 0xFFFF_FFFF {
                push_u(out, viol("C16", format!("fsinfo/unknown-count-became-known@{}", st.op.kind()), format!("free count was unknown at mount, now {}", free1), sc, hist));
            }
        } else {
            let want = free0 as i64 + (scan1 - scan0);
            if want >= 0 && want <= u32::MAX as i64 && free1 as i64 != want {
                // a flush / close of a clean file writes nothing at all and is no synchronisation point; closing the
                // volume always is one, and so is every flush that wrote anything
                let wrote_info = st.log.iter().any(|c| c.write && c.idx == info_blk);
                let wrote_any = st.log.iter().any(|c| c.write);
                let pre_free = le32(&pre.rd(info_blk), 488);
                if wrote_info || wrote_any || pre_free != free1 || matches!(st.op, Op::CloseVol { .. }) {
                    push_u(out, viol(
                        "C16",
                        format!("fsinfo/free-count-delta-wrong@{}", st.op.kind()),
                        format!("free count at mount {} (scan {}), now {} (scan {}): expected {}", free0, scan0, free1, scan1, want),
                        sc,
                        hist,
                    ));
                }
            }
        }
        if next1 != 0xFFFF_FFFF && !(2..v.clusters + 2).contains(&next1) {
            let wrote_info = st.log.iter().any(|c| c.write && c.idx == info_blk);
            let wrote_any = st.log.iter().any(|c| c.write);
            // (with the count unknown as well the crate never touches the sector, and what was there at mount stays)
            if wrote_info || ((wrote_any || matches!(st.op, Op::CloseVol { .. })) && free0 != 0xFFFF_FFFF) {
                push_u(out, viol(
                    "C16",
                    format!("fsinfo/next-free-hint-out-of-range@{}", st.op.kind()),
                    format!("next-free hint written as {} (was {} at mount); volume has clusters 2..{}", next1, next0, v.clusters + 1),
                    sc,
                    hist,
                ));
            }
        }
    }
}

/// A stale record must never make a call fail or panic: same results as on the twin with a correct record.
pub struct StaleTwin;

impl Oracle for StaleTwin {
    fn check(&self, sc: &Scenario, hist: &[Op], _w: &World, st: &Step, out: &mut Vec<Violation>) {
        if !vc(sc).vol.fat32 {
            return;
        }
        if let Res::Panic(m) = &st.res {
            push_u(out, viol("C16", format!("stale-record/panic@{}", st.op.kind()), format!("{}: {}", st.op.show(), m), sc, hist));
        }
    }
}

pub fn twin_compare(sc_stale: &Scenario, sc_good: &Scenario, hist: &[Op], st: &Step, out: &mut Vec<Violation>) {
    let (w2, st2) = sc_good.replay_observed(hist);
    if w2.dead && !matches!(st.res, Res::Panic(_)) {
        return; // the twin itself panicked earlier: reported by the twin's own exploration
    }
    if st.res.class() != st2.res.class() {
        push_u(out, viol(
            "C16",
            format!("stale-record/result-differs-from-correct-record@{}", st.op.kind()),
            format!("{} -> {} with the stale record, {} with a correct one", st.op.show(), st.res.class(), st2.res.class()),
            sc_stale,
            hist,
        ));
    }
}

#[derive(Default)]
pub struct TwinOracle {
    pub good: std::sync::Mutex<std::collections::HashMap<String, std::sync::Arc<Scenario>>>,
}

impl Oracle for TwinOracle {
    fn check(&self, sc: &Scenario, hist: &[Op], _w: &World, st: &Step, out: &mut Vec<Violation>) {
        let Some(tag) = sc.tag.as_ref().and_then(|t| t.downcast_ref::<(MutOpts, String)>()) else { return };
        if tag.0.fsinfo == FsInfo::Correct {
            return;
        }
        let twin = {
            let mut g = self.good.lock().unwrap();
            g.entry(sc.name.clone())
                .or_insert_with(|| {
                    let mut o = tag.0.clone();
                    o.fsinfo = FsInfo::Correct;
                    std::sync::Arc::new(mut_scenario(&o, "twin"))
                })
                .clone()
        };
        twin_compare(sc, &twin, hist, st, out);
    }
}

// ---------------------------------------------------------------------------
// C02 — after flush/close the medium holds the files
// ---------------------------------------------------------------------------

pub struct Durable;

fn check_tree_against_model(prop: &'static str, sc: &Scenario, hist: &[Op], w: &World, img: &Image, what: &str, out: &mut Vec<Violation>, st: &Step) {
    let vcx = vc(sc);
    let vw = view(vcx, img);
    let dump = remount_dump(img, vcx.slot);
    let dump = match dump {
        Ok(d) => Some(d),
        Err(e) => {
            push_u(out, viol(prop, format!("remount/crate-cannot-read-medium@{}", st.op.kind()), format!("{}: fresh mount by the crate failed: {}", what, e), sc, hist));
            None
        }
    };
    let Some(root) = w.m.vols[vcx.slot].as_ref() else { return };
    let base_view = view(vcx, &Image::new(sc.cfg.base.clone()));
    let mut stack: Vec<(String, &MDir)> = vec![("".to_string(), root)];
    while let Some((path, d)) = stack.pop() {
        for (k, n) in &d.ch {
            let p = format!("{}/{}", path, key_str(k));
            match n {
                MNode::Dir(sub) => {
                    match vw.tree.find(&p) {
                        Some(x) if x.is_dir => {
                            if let Ts::Tick(_) = sub.ctime {
                                if refat::decode_ts(x.ent.cdate, x.ent.ctime) != sub.ctime.tuple() {
                                    push_u(out, viol(prop, format!("durable/dir-ctime@{}", st.op.kind()), format!("{}: {} ctime on medium {:?}, expected {:?}", what, p, refat::decode_ts(x.ent.cdate, x.ent.ctime), sub.ctime.tuple()), sc, hist));
                                }
                            } else if let Some(b) = base_view.tree.find(&p) {
                                if b.ent.raw != x.ent.raw {
                                    push_u(out, viol(prop, format!("untouched/dir-entry-changed@{}", st.op.kind()), format!("{}: entry of directory {} changed", what, p), sc, hist));
                                }
                            }
                        }
                        _ => push_u(out, viol(prop, format!("durable/dir-missing@{}", st.op.kind()), format!("{}: independent reader does not find directory {}", what, p), sc, hist)),
                    }
                    if let Some(dm) = &dump {
                        if !dm.get(&p).map(|s| s.is_dir).unwrap_or(false) {
                            push_u(out, viol(prop, format!("durable/dir-missing-in-crate-remount@{}", st.op.kind()), format!("{}: fresh mount by the crate does not list directory {}", what, p), sc, hist));
                        }
                    }
                    stack.push((p, sub));
                }
                MNode::File(f) => {
                    if f.opaque {
                        continue;
                    }
                    if !f.touched {
                        // never named by the history: byte-for-byte and entry-for-entry unchanged
                        match (base_view.tree.find(&p), vw.tree.find(&p)) {
                            (Some(b), Some(x)) => {
                                if b.ent.raw != x.ent.raw {
                                    push_u(out, viol(prop, format!("untouched/entry-changed@{}", st.op.kind()), format!("{}: directory entry of untouched file {} changed", what, p), sc, hist));
                                } else if refat::file_bytes(img, &vcx.vol, x) != f.data {
                                    push_u(out, viol(prop, format!("untouched/contents-changed@{}", st.op.kind()), format!("{}: contents of untouched file {} changed", what, p), sc, hist));
                                }
                            }
                            _ => push_u(out, viol(prop, format!("untouched/missing@{}", st.op.kind()), format!("{}: untouched file {} is gone", what, p), sc, hist)),
                        }
                        continue;
                    }
                    let Some(dur) = &f.durable else { continue };
                    // independent reader
                    match vw.tree.find(&p) {
                        Some(x) if !x.is_dir => {
                            let bytes = refat::file_bytes(img, &vcx.vol, x);
                            if x.ent.size as usize != dur.len() {
                                push_u(out, viol(prop, format!("durable/length@{}", st.op.kind()), format!("{}: {} has size {} on the medium, flushed length is {}", what, p, x.ent.size, dur.len()), sc, hist));
                            } else if &bytes != dur {
                                let first = bytes.iter().zip(dur.iter()).position(|(a, b)| a != b);
                                push_u(out, viol(prop, format!("durable/contents@{}", st.op.kind()), format!("{}: {} differs from the flushed contents at byte {:?}", what, p, first), sc, hist));
                            }
                            if refat::decode_ts(x.ent.cdate, x.ent.ctime) != f.ctime.tuple() {
                                push_u(out, viol(prop, format!("durable/ctime@{}", st.op.kind()), format!("{}: {} creation time {:?}, expected {:?}", what, p, refat::decode_ts(x.ent.cdate, x.ent.ctime), f.ctime.tuple()), sc, hist));
                            }
                            if refat::decode_ts(x.ent.wdate, x.ent.wtime) != f.mtime.tuple() {
                                push_u(out, viol(prop, format!("durable/mtime@{}", st.op.kind()), format!("{}: {} modification time {:?}, expected {:?} (clock of the last write)", what, p, refat::decode_ts(x.ent.wdate, x.ent.wtime), f.mtime.tuple()), sc, hist));
                            }
                            if x.ent.attr & 0x10 != 0 {
                                push_u(out, viol(prop, format!("durable/attribute@{}", st.op.kind()), format!("{}: {} carries the directory attribute", what, p), sc, hist));
                            }
                        }
                        _ => push_u(out, viol(prop, format!("durable/file-missing@{}", st.op.kind()), format!("{}: independent reader does not find flushed file {}", what, p), sc, hist)),
                    }
                    // the crate itself, freshly mounted
                    if let Some(dm) = &dump {
                        match dm.get(&p) {
                            Some(s) if !s.is_dir => {
                                if s.data.as_ref() != Some(dur) {
                                    push_u(out, viol(prop, format!("durable/contents-in-crate-remount@{}", st.op.kind()), format!("{}: fresh mount by the crate reads {} bytes for {}, flushed {}", what, s.data.as_ref().map(|d| d.len()).unwrap_or(0), p, dur.len()), sc, hist));
                                }
                                if s.ent.ctime != f.ctime.tuple() || s.ent.mtime != f.mtime.tuple() {
                                    push_u(out, viol(prop, format!("durable/times-in-crate-remount@{}", st.op.kind()), format!("{}: {} ctime {:?} mtime {:?}, expected {:?} {:?}", what, p, s.ent.ctime, s.ent.mtime, f.ctime.tuple(), f.mtime.tuple()), sc, hist));
                                }
                            }
                            _ => push_u(out, viol(prop, format!("durable/file-missing-in-crate-remount@{}", st.op.kind()), format!("{}: fresh mount by the crate does not list {}", what, p), sc, hist)),
                        }
                    }
                }
            }
        }
    }
}

impl Oracle for Durable {
    fn check(&self, sc: &Scenario, hist: &[Op], w: &World, st: &Step, out: &mut Vec<Violation>) {
        let Some(post) = &st.post else { return };
        if w.dead {
            return;
        }
        check_tree_against_model("C02", sc, hist, w, post, &format!("after {}", st.op.show()), out, st);
    }
}

// ---------------------------------------------------------------------------
// Property definitions
// ---------------------------------------------------------------------------

fn fs_scenarios(tier: &str, prefix: &'static str, alphabet: Alpha, moving_clock: bool) -> Vec<(String, ScenMaker)> {
    let mut out = Vec::new();
    let quick = tier == "quick";
    // V16b has two blocks per cluster and a single FAT: multi-block clusters are where zeroing / range slips show
    let kinds: &[VolKind] = &[VolKind::V16a, VolKind::V16b, VolKind::V32a, VolKind::V32b];
    let frees: &[Option<usize>] = if quick { &[None, Some(1)] } else { &[None, Some(3), Some(2), Some(1), Some(0)] };
    for &k in kinds {
        for &fr in frees {
            if quick && prefix == "durable" && k == VolKind::V32b && fr.is_some() {
                // (the remount oracle on a nearly-full 4-blocks-per-cluster FAT32 volume costs a quarter of C02's quick
                // budget; V32a covers nearly-full FAT32, V32b the multi-block clusters)
                continue;
            }
            let qd = 4;
            let mut o = base_opts(k, fr, if quick { qd } else { qd + 1 }, alphabet);
            o.moving_clock = moving_clock;
            if alphabet == Alpha::MutateFail && !k.geom().fat32 {
                o.root_free_slots = Some(1);
            }
            out.push(maker(o, prefix));
        }
    }
    // 64-block clusters at a large partition offset (depth one less: every directory walk reads 64 blocks)
    if prefix != "durable" {
        let mut o = base_opts(VolKind::V16c, None, if quick { 3 } else { 4 }, alphabet);
        o.moving_clock = moving_clock;
        out.push(maker(o, prefix));
        let mut o = base_opts(VolKind::V16c, Some(1), if quick { 3 } else { 4 }, alphabet);
        o.moving_clock = moving_clock;
        out.push(maker(o, prefix));
    }
    out
}

pub fn c03_def() -> HistProp {
    HistProp {
        id: "C03",
        level: "model_checking",
        scenarios: |t| fs_scenarios(t, "fsck", Alpha::MutateFail, false),
        oracles: || vec![Box::new(Fsck)],
        budget_s: |t| if t == "quick" { 50 } else { 900 },
        max_states: 3_000_000,
        assumptions: &["refat's fsck is the structural reference; checked on the raw image after every call and on a scratch replay with all open files flushed"],
    }
}

pub fn c04_def() -> HistProp {
    HistProp {
        id: "C04",
        level: "model_checking",
        scenarios: |t| fs_scenarios(t, "bounds", Alpha::MutateFail, false),
        oracles: || vec![Box::new(WriteBounds)],
        budget_s: |t| if t == "quick" { 50 } else { 900 },
        max_states: 3_000_000,
        assumptions: &["a victim partition lies directly behind the volume; the device accepts and records out-of-volume writes so the oracle can judge them"],
    }
}

fn space_scenarios(tier: &str, prefix: &'static str) -> Vec<(String, ScenMaker)> {
    let mut out = Vec::new();
    let quick = tier == "quick";
    let kinds: &[VolKind] = if quick { &[VolKind::V16a, VolKind::V16b] } else { &[VolKind::V16a, VolKind::V16b, VolKind::V32a, VolKind::V32b] };
    let frees: &[usize] = if quick { &[1, 2] } else { &[0, 1, 2, 3] };
    for &k in kinds {
        for &fr in frees {
            let o = base_opts(k, Some(fr), if quick { 6 } else { 7 }, Alpha::Space);
            out.push(maker(o, prefix));
        }
    }
    // a completely full parent directory and a single free cluster: mkdir takes the cluster and then cannot enter
    // the new directory into its parent
    for k in [VolKind::V16a, VolKind::V32a] {
        let mut o = base_opts(k, Some(1), if quick { 4 } else { 6 }, Alpha::Space);
        o.sub_free_slots = 0;
        out.push(maker(o, prefix));
    }
    // the top of the largest FAT16 volume: cluster numbers 0xFFF0..=0xFFF5 are ordinary clusters
    out.push(maker(base_opts(VolKind::V16d, Some(4), if quick { 5 } else { 6 }, Alpha::Space), prefix));
    if quick {
        out.push(maker(base_opts(VolKind::V32a, Some(2), 6, Alpha::Space), prefix));
        out.push(maker(base_opts(VolKind::V32b, Some(1), 5, Alpha::Space), prefix));
    }
    out
}

pub fn c05_def() -> HistProp {
    HistProp {
        id: "C05",
        level: "model_checking",
        scenarios: |t| {
            let mut v = space_scenarios(t, "space");
            // delete/truncate of pre-existing multi-cluster files with ample space
            let mut o = base_opts(VolKind::V16a, None, if t == "quick" { 4 } else { 5 }, Alpha::Mutate);
            o.victim = false;
            v.push(maker(o, "space-mut"));
            let mut o = base_opts(VolKind::V32a, None, if t == "quick" { 3 } else { 5 }, Alpha::Mutate);
            o.victim = false;
            v.push(maker(o, "space-mut"));
            v
        },
        oracles: || {
            vec![
                Box::new(Space),
                Box::new(super::common::ApiOracle {
                    prop: "C05",
                    accept: |c| c.starts_with("read/") || c.starts_with("fill/") || c.starts_with("write/partial") || c == "handle/length" || c == "handle/offset",
                }),
            ]
        },
        budget_s: |t| if t == "quick" { 50 } else { 900 },
        max_states: 3_000_000,
        assumptions: &["fills start at the end of the file, so capacity = room in the last cluster + free clusters x cluster size", "leaks are judged differentially against the pre-state with all open files flushed"],
    }
}

pub fn c16_scenarios(tier: &str) -> Vec<(String, ScenMaker)> {
    let mut out = Vec::new();
    let quick = tier == "quick";
    // FAT copies on 2-FAT volumes
    for (k, fr) in [(VolKind::V16a, Some(2)), (VolKind::V32a, Some(2)), (VolKind::V32a, None)] {
        out.push(maker(base_opts(k, fr, if quick { 5 } else { 6 }, Alpha::Space), "fat"));
    }
    out.push(maker(base_opts(VolKind::V16a, None, if quick { 4 } else { 5 }, Alpha::Mutate), "fat"));
    // a full parent directory and one / two free clusters: mkdir takes the last cluster and then cannot grow the parent
    for fr in [1usize, 2] {
        let mut o = base_opts(VolKind::V32a, Some(fr), if quick { 5 } else { 6 }, Alpha::Space);
        o.sub_free_slots = 0;
        out.push(maker(o, "fsinfo-fullsub"));
    }
    // FSInfo variants on FAT32
    let infos: &[FsInfo] = &[FsInfo::Correct, FsInfo::Unknown, FsInfo::StaleSmall, FsInfo::StaleLarge, FsInfo::NextOutOfRange, FsInfo::CountOnly, FsInfo::HintOnly];
    for &fi in infos {
        for (k, fr) in [(VolKind::V32a, 2usize), (VolKind::V32b, 3)] {
            if quick && k == VolKind::V32b && fi != FsInfo::Correct {
                continue;
            }
            let mut o = base_opts(k, Some(fr), if quick { 5 } else { 6 }, Alpha::Space);
            o.fsinfo = fi;
            out.push(maker(o, "fsinfo"));
        }
        let mut o = base_opts(VolKind::V32a, None, if quick { 4 } else { 5 }, Alpha::Mutate);
        o.fsinfo = fi;
        out.push(maker(o, "fsinfo-mut"));
    }
    out
}

pub fn c16_def() -> HistProp {
    HistProp {
        id: "C16",
        level: "model_checking",
        scenarios: c16_scenarios,
        oracles: || vec![Box::new(FatCopies), Box::new(StaleTwin), Box::new(TwinOracle::default())],
        budget_s: |t| if t == "quick" { 50 } else { 900 },
        max_states: 3_000_000,
        assumptions: &["free-count truthfulness is judged as: stored count minus count at mount = change of the number of free FAT entries by scan", "a history on a volume with a stale record must return the same results as on the twin volume with a correct record"],
    }
}

pub fn c02_def() -> HistProp {
    HistProp {
        id: "C02",
        level: "model_checking",
        scenarios: |t| {
            let mut v = fs_scenarios(t, "durable", Alpha::Mutate, true).into_iter().filter(|(n, _)| n.contains("freemany") || n.contains("free3") || n.contains("free1")).collect::<Vec<_>>();
            {
                // closing by dropping the RAII wrappers (Drop = close ignoring the error), volumes via open_volume
                let mut o = base_opts(VolKind::V16a, None, if t == "quick" { 3 } else { 4 }, Alpha::Mutate);
                o.moving_clock = true;
                o.front = Front::Drop;
                v.insert(0, maker(o, "durable"));
                let mut o = base_opts(VolKind::V32a, Some(1), if t == "quick" { 3 } else { 4 }, Alpha::Mutate);
                o.moving_clock = true;
                o.front = Front::Raii;
                v.insert(1, maker(o, "durable"));
            }
            if t != "quick" {
                // deeper on a reduced volume set
                let mut o = base_opts(VolKind::V16a, None, 5, Alpha::Mutate);
                o.moving_clock = true;
                o.sub_free_slots = 0;
                v.push(maker(o, "durable"));
            }
            // overwriting in place: seek back to the start of an open file (the write after it does not grow the file)
            v.into_iter()
                .map(|(n, m)| {
                    let wrapped: ScenMaker = Box::new(move || {
                        let mut sc = m();
                        for f in 0..2u8 {
                            sc.alphabet.push(Op::SeekStart { f, o: 0 });
                        }
                        sc
                    });
                    (n, wrapped)
                })
                .collect()
        },
        oracles: || vec![Box::new(Durable)],
        budget_s: |t| if t == "quick" { 50 } else { 900 },
        max_states: 2_000_000,
        assumptions: &["the remount oracle runs at every state on a snapshot of the medium, through a fresh VolumeManager and through refat", "clock values have even seconds; zero-length writes are not in the alphabet"],
    }
}

// ---------------------------------------------------------------------------
// C09 / C10 — power loss at every block write (E3: crash-prefix enumeration)
// ---------------------------------------------------------------------------

/// The images after each prefix of the transition's write log: index k = after k writes (k = 1..=n).
pub static CRASH_IMAGES: std::sync::atomic::AtomicU64 = std::sync::atomic::AtomicU64::new(0);
pub static CRASH_TRANSITIONS: std::sync::atomic::AtomicU64 = std::sync::atomic::AtomicU64::new(0);

/// The crash images of a transition, produced one at a time (a transition with thousands of writes must not hold
/// thousands of copies of the medium at once).
pub struct CrashImages<'a> {
    cur: Option<Image>,
    writes: Vec<&'a crate::simdisk::Call>,
    next: usize,
}

impl<'a> CrashImages<'a> {
    pub fn len(&self) -> usize {
        self.writes.len()
    }
    pub fn is_empty(&self) -> bool {
        self.writes.is_empty()
    }
}

impl<'a> Iterator for CrashImages<'a> {
    type Item = (usize, Image);
    fn next(&mut self) -> Option<(usize, Image)> {
        let c = *self.writes.get(self.next)?;
        let cur = self.cur.as_mut()?;
        cur.put(c.idx, c.data.as_ref().unwrap());
        self.next += 1;
        Some((self.next, cur.clone()))
    }
}

pub fn crash_images(st: &Step) -> CrashImages<'_> {
    let writes: Vec<&crate::simdisk::Call> = if st.pre.is_some() { st.log.iter().filter(|c| c.write && c.ok).collect() } else { Vec::new() };
    if !writes.is_empty() {
        CRASH_IMAGES.fetch_add(writes.len() as u64, std::sync::atomic::Ordering::Relaxed);
        CRASH_TRANSITIONS.fetch_add(1, std::sync::atomic::Ordering::Relaxed);
    }
    CrashImages { cur: st.pre.clone(), writes, next: 0 }
}

pub struct CrashConsistency;

const C10_KINDS: &[&str] = &[
    "chain/start-out-of-range",
    "chain/passes-through-free-entry",
    "chain/passes-through-bad-entry",
    "chain/link-out-of-range",
    "chain/cycle",
    "chain/shared-cluster",
    "subdir/no-cluster",
    "dir/stale-entries-exposed",
    "dir/loop",
    "dir/bad-dot",
    "dir/bad-dotdot",
];

impl Oracle for CrashConsistency {
    fn check(&self, sc: &Scenario, hist: &[Op], _w: &World, st: &Step, out: &mut Vec<Violation>) {
        let Some(pre) = &st.pre else { return };
        let imgs = crash_images(st);
        if imgs.is_empty() {
            return;
        }
        let vcx = vc(sc);
        let ppre = problem_set(&view(vcx, pre));
        let n = imgs.len();
        for (k, img) in imgs {
            if crate::engine::past_deadline() {
                break;
            }
            let vw = view(vcx, &img);
            for p in &vw.tree.problems {
                if C10_KINDS.contains(&p.kind.as_str()) && !ppre.contains(&(p.kind.clone(), p.detail.clone())) {
                    push_u(out, viol(
                        "C10",
                        format!("crash/{}@{}", p.kind, st.op.kind()),
                        format!("power cut after write {} of {} of {}: {}", k, n, st.op.show(), p.detail),
                        sc,
                        hist,
                    ));
                }
            }
            // the crate must mount the medium and list the whole tree
            if let Err(e) = crate::medium::remount_list(&img, vcx.slot) {
                // only if the pre-image was fine
                if crate::medium::remount_list(pre, vcx.slot).is_ok() {
                    push_u(out, viol(
                        "C10",
                        format!("crash/crate-cannot-list-medium@{}", st.op.kind()),
                        format!("power cut after write {} of {} of {}: fresh mount: {}", k, n, st.op.show(), e),
                        sc,
                        hist,
                    ));
                }
            }
        }
    }
}

pub struct CrashDurability;

impl Oracle for CrashDurability {
    fn check(&self, sc: &Scenario, hist: &[Op], _w: &World, st: &Step, out: &mut Vec<Violation>) {
        let imgs = crash_images(st);
        if imgs.is_empty() {
            return;
        }
        let vcx = vc(sc);
        // whatever lies outside this volume's partition (the partition table, a neighbouring volume with its own
        // flushed files) must survive as well: no write may land there
        for c in st.log.iter().filter(|c| c.write && c.ok) {
            if c.idx < vcx.vol.lba || c.idx >= vcx.vol.lba.saturating_add(vcx.vol.total) {
                push_u(out, viol("C09", format!("crash-durability/write-outside-the-volume@{}", st.op.kind()), format!("{}: block {} written; the volume is [{}, {}) - flushed data of whatever lies there is overwritten", st.op.show(), c.idx, vcx.vol.lba, vcx.vol.lba + vcx.vol.total), sc, hist));
                break;
            }
        }
        let pre_m = sc_model_pre(sc, hist);
        let (tgt, _) = targets(&pre_m, &st.op);
        let modifies_target = matches!(st.op, Op::Write { .. } | Op::Fill { .. } | Op::Delete { .. }) || matches!(st.op, Op::Open { mode, .. } if mode == M_TRUNC || mode == M_CREATE_TRUNC);
        // flushed files of the pre-state
        let mut flushed: Vec<(String, Vec<u8>)> = Vec::new();
        if let Some(root) = pre_m.vols[vcx.slot].as_ref() {
            let mut stack: Vec<(String, &MDir)> = vec![("".into(), root)];
            while let Some((path, d)) = stack.pop() {
                for (k, n) in &d.ch {
                    let p = format!("{}/{}", path, key_str(k));
                    match n {
                        MNode::Dir(s) => stack.push((p, s)),
                        MNode::File(f) => {
                            if f.opaque || (modifies_target && Some(&p) == tgt.as_ref()) {
                                continue;
                            }
                            if let Some(d) = &f.durable {
                                flushed.push((p, d.clone()));
                            }
                        }
                    }
                }
            }
        }
        let n = imgs.len();
        for (k, img) in imgs {
            if crate::engine::past_deadline() {
                break;
            }
            let vw = view(vcx, &img);
            let dump = remount_dump(&img, vcx.slot);
            for (p, data) in &flushed {
                let what = format!("power cut after write {} of {} of {}", k, n, st.op.show());
                match vw.tree.find(p) {
                    Some(x) if !x.is_dir && x.ent.size as usize >= data.len() => {
                        let bytes = refat::read_chain_bytes(&img, &vcx.vol, &x.chain, data.len() as u32);
                        if &bytes != data {
                            push_u(out, viol("C09", format!("crash-durability/contents@{}", st.op.kind()), format!("{}: flushed file {} no longer holds its flushed contents", what, p), sc, hist));
                        }
                    }
                    Some(x) if !x.is_dir => push_u(out, viol("C09", format!("crash-durability/shorter@{}", st.op.kind()), format!("{}: flushed file {} has size {} < flushed length {}", what, p, x.ent.size, data.len()), sc, hist)),
                    _ => push_u(out, viol("C09", format!("crash-durability/missing@{}", st.op.kind()), format!("{}: flushed file {} is gone", what, p), sc, hist)),
                }
                match &dump {
                    Ok(dm) => match dm.get(p) {
                        Some(s) if s.data.as_ref().map(|d| d.len() >= data.len() && d[..data.len()] == data[..]).unwrap_or(false) => {}
                        other => push_u(out, viol(
                            "C09",
                            format!("crash-durability/crate-remount@{}", st.op.kind()),
                            format!("{}: fresh mount by the crate shows {} as {:?} bytes, flushed {}", what, p, other.and_then(|s| s.data.as_ref().map(|d| d.len())), data.len()),
                            sc,
                            hist,
                        )),
                    },
                    Err(e) => push_u(out, viol("C09", format!("crash-durability/crate-cannot-read-medium@{}", st.op.kind()), format!("{}: {}", what, e), sc, hist)),
                }
            }
        }
    }
}

fn crash_scenarios(tier: &str, prefix: &'static str) -> Vec<(String, ScenMaker)> {
    let mut out = Vec::new();
    let quick = tier == "quick";
    let kinds: &[VolKind] = &[VolKind::V16a, VolKind::V16b, VolKind::V32a, VolKind::V32b];
    for &k in kinds {
        for (fr, sub_free) in [(None, 1usize), (None, 0), (Some(3usize), 0)] {
            // quick: the nearly-full layout only on the volume whose last free cluster lies above 65535
            if quick && fr.is_some() && k != VolKind::V32a {
                continue;
            }
            let mut o = base_opts(k, fr, if quick { 4 } else { 5 }, Alpha::Mutate);
            o.sub_free_slots = sub_free;
            o.victim = false;
            out.push(maker(o, prefix));
        }
    }
    out
}

pub fn c09_def() -> HistProp {
    HistProp {
        id: "C09",
        level: "fault_enumeration",
        scenarios: |t| crash_scenarios(t, "crash-dur"),
        oracles: || vec![Box::new(CrashDurability)],
        budget_s: |t| if t == "quick" { 50 } else { 900 },
        max_states: 2_000_000,
        assumptions: &["block writes are atomic and ordered (as the property assumes)", "every prefix of the write log of every explored transition is a crash image"],
    }
}

pub fn c10_def() -> HistProp {
    HistProp {
        id: "C10",
        level: "fault_enumeration",
        scenarios: |t| crash_scenarios(t, "crash"),
        oracles: || vec![Box::new(CrashConsistency)],
        budget_s: |t| if t == "quick" { 50 } else { 900 },
        max_states: 2_000_000,
        assumptions: &["block writes are atomic and ordered (as the property assumes)", "free clusters carry a stale pattern of plausible directory entries so exposure of uninitialised contents is visible", "permitted residue: allocated-but-unreferenced clusters and a size not yet updated"],
    }
}

// ---------------------------------------------------------------------------
// C04 — volumes whose information sector is not where / what it should be
// ---------------------------------------------------------------------------

/// FAT32 volumes whose boot sector points at something that is not an information sector (or whose information
/// sector has lost a signature). Whether such a volume mounts is not C04's business; what is: if it mounts, a short
/// mutation history must still write only FAT sectors, clusters that were free (or belong to the root directory),
/// and bytes 488..496 of a block that really is an information sector.
pub const ODD_INFO_VARIANTS: [&str; 9] = ["control", "fs_info=0", "fs_info=0xffff", "fs_info=2", "fs_info=6", "lead-signature-wiped", "struct-signature-wiped", "trail-signature-wiped", "all-signatures-wiped"];

pub fn odd_info_case(kind: VolKind, variant: &str) -> (Vec<(String, String)>, bool) {
    use crate::simdisk::{Clock, SimDisk};
    use embedded_sdmmc::{Mode, VolumeIdx, VolumeManager};
    let g = kind.geom();
    let to = TreeOpts { tree: true, sub_free_slots: 1, root_free_slots: None, free: Some(3), fsinfo: FsInfo::Correct, free_top: false };
    let base = scen::build(g.clone(), &to);
    let vol = refat::locate(&base, 0).expect("odd-info base volume");
    let mut img = Image::new(std::sync::Arc::new(base));
    let boot = vol.lba;
    let info = vol.lba + vol.fsinfo;
    let mut bs = img.rd(boot);
    let mut is = img.rd(info);
    match variant {
        "control" => {}
        "fs_info=0" => crate::util::put16(&mut bs, 48, 0),
        "fs_info=0xffff" => crate::util::put16(&mut bs, 48, 0xFFFF),
        "fs_info=2" => crate::util::put16(&mut bs, 48, 2),
        "fs_info=6" => crate::util::put16(&mut bs, 48, 6),
        "lead-signature-wiped" => is[0..4].fill(0),
        "struct-signature-wiped" => is[484..488].fill(0),
        "trail-signature-wiped" => is[508..512].fill(0),
        _ => {
            is[0..4].fill(0);
            is[484..488].fill(0);
            is[508..512].fill(0);
        }
    }
    img.put(boot, &bs);
    img.put(info, &is);
    let pre = img.clone();
    let fat = refat::read_fat(&pre, &vol, 0);
    let root_chain: Vec<u32> = if vol.fat32 { refat::chain(&fat, &vol, vol.root_cluster).0 } else { vec![] };
    let disk = SimDisk::new(img);
    disk.set_horizon(2_000_000);
    let d2 = disk.clone();
    let r = crate::util::catch_quiet(move || -> bool {
        let vm: VM = VolumeManager::new_with_limits(d2, Clock::new(), 100);
        let Ok(v) = vm.open_raw_volume(VolumeIdx(0)) else { return false };
        if let Ok(root) = vm.open_root_dir(v) {
            if let Ok(f) = vm.open_file_in_dir(root, "NEW.DAT", Mode::ReadWriteCreateOrTruncate) {
                let _ = vm.write(f, &[0x5A; 700]);
                let _ = vm.flush_file(f);
                let _ = vm.write(f, &[0xA5; 600]);
                let _ = vm.close_file(f);
            }
            let _ = vm.make_dir_in_dir(root, "ND");
            let _ = vm.delete_file_in_dir(root, "EMPTY.DAT");
            let _ = vm.close_dir(root);
        }
        let _ = vm.close_volume(v);
        true
    });
    let mut out: Vec<(String, String)> = Vec::new();
    let mounted = match r {
        crate::util::Caught::Ok(m) => m,
        crate::util::Caught::Panic(m) => {
            out.push(("odd-info/panic".into(), format!("variant {}: {}", variant, m)));
            true
        }
    };
    let fat_lo = vol.lba + vol.reserved;
    let data_lo = vol.lba + vol.first_data;
    let data_hi = vol.data_end();
    let is_info = |b: &[u8; 512]| b[0..4] == [0x52, 0x52, 0x61, 0x41] && b[484..488] == [0x72, 0x72, 0x41, 0x61] && b[508..512] == [0x00, 0x00, 0x55, 0xAA];
    let mut cur = pre.clone();
    for c in disk.take_log().iter().filter(|c| c.write && c.ok) {
        let b = c.idx;
        let data = c.data.as_ref().unwrap();
        let mut bad = |sig: &str, detail: String| {
            if !out.iter().any(|x| x.0 == sig) {
                out.push((sig.to_string(), format!("variant {} ({}): {}", variant, if mounted { "mounted" } else { "refused" }, detail)));
            }
        };
        if !mounted {
            bad("odd-info/write-although-mount-refused", format!("block {} written", b));
        } else if b < vol.lba || b >= vol.lba.saturating_add(vol.total) {
            bad("odd-info/region/outside-partition", format!("block {} written; partition is [{}, {})", b, vol.lba, vol.lba + vol.total));
        } else if b == vol.lba {
            bad("odd-info/region/boot-sector", format!("boot sector {} written", b));
        } else if b < fat_lo {
            let p = cur.rd(b);
            if !is_info(&p) {
                bad("odd-info/region/reserved-block-that-is-no-information-sector", format!("reserved block {} written", b));
            } else if (0..512).any(|i| !(488..496).contains(&i) && p[i] != data[i]) {
                bad("odd-info/region/info-sector-other-bytes", format!("information sector {} changed outside bytes 488..496", b));
            }
        } else if b >= data_lo {
            if b >= data_hi {
                bad("odd-info/region/past-last-cluster", format!("block {} written; the last cluster ends at {}", b, data_hi));
            } else {
                let cl = 2 + (b - data_lo) / vol.spc;
                let was_free = refat::low(&vol, fat[cl as usize]) == 0;
                if !was_free && !root_chain.contains(&cl) {
                    bad("odd-info/data/cluster-of-someone-else-written", format!("block {} (cluster {}, FAT entry {:#x} before the history) written", b, cl, fat[cl as usize]));
                }
            }
        }
        cur.put(b, data);
    }
    (out, mounted)
}

pub fn odd_info_sweep() -> (Vec<Violation>, u64, u64) {
    let mut viols: Vec<Violation> = Vec::new();
    let mut n = 0u64;
    let mut mounted_n = 0u64;
    for kind in [VolKind::V32a, VolKind::V32b] {
        for variant in ODD_INFO_VARIANTS {
            n += 1;
            let (found, mounted) = odd_info_case(kind, variant);
            if mounted {
                mounted_n += 1;
            }
            if variant == "control" && !mounted {
                crate::engine::machinery_fail("odd-info control volume does not mount");
            }
            for (sig, detail) in found {
                if !viols.iter().any(|x| x.sig == sig) {
                    viols.push(Violation { prop: "C04".into(), sig, detail, scenario: "odd-info".into(), hist: vec![], input: Some(serde_json::json!({"kind":"odd-info","volume":kind.name(),"variant":variant})) });
                }
            }
        }
    }
    (viols, n, mounted_n)
}

pub fn replay_input_c04(inp: &serde_json::Value) -> i32 {
    let kind = if inp["volume"].as_str() == Some("V32b") { VolKind::V32b } else { VolKind::V32a };
    let variant = ODD_INFO_VARIANTS.iter().find(|v| Some(**v) == inp["variant"].as_str()).copied().unwrap_or("control");
    let (found, mounted) = odd_info_case(kind, variant);
    println!("volume {} variant {}: {}", kind.name(), variant, if mounted { "mounted" } else { "mount refused" });
    for (s, d) in &found {
        println!("VIOLATION property=C04 signature={}\n  {}", s, d);
    }
    if found.is_empty() {
        println!("no violation on replay");
        0
    } else {
        1
    }
}
