//! C11 — a block-device error is always reported, never swallowed, never wedges the API.
//! E1 enumerates states; for every transition a failure is injected at every device-call index.

use super::common::{HistProp, ScenMaker};
use super::fsprops::{mut_scenario, Alpha, MutOpts, VolKind};
use crate::engine::{viol, Oracle, Scenario, Violation};
use crate::medium::view;
use crate::mkfs::FsInfo;
use crate::refat;
use crate::util::{catch_quiet, Caught};
use crate::world::*;

pub static FAULT_RUNS: std::sync::atomic::AtomicU64 = std::sync::atomic::AtomicU64::new(0);
pub static FAULT_KINDS: std::sync::Mutex<std::collections::BTreeMap<String, u64>> = std::sync::Mutex::new(std::collections::BTreeMap::new());

pub struct Faults {
    pub pairs: bool,
}

fn region_of(sc: &Scenario, idx: u32) -> &'static str {
    let v = &sc.vols[0].vol;
    if idx < v.lba + v.reserved {
        "reserved"
    } else if idx < v.lba + v.reserved + v.nfats * v.fatsz {
        "fat"
    } else if idx < v.lba + v.first_data {
        "root-dir"
    } else {
        "data-or-dir-cluster"
    }
}

impl Faults {
    #[allow(clippy::too_many_arguments)]
    fn one(&self, sc: &Scenario, hist: &[Op], st: &Step, k: usize, out: &mut Vec<Violation>) {
        let (last, prefix) = hist.split_last().unwrap();
        let mut w = sc.replay(prefix);
        if w.dead {
            return;
        }
        let call = &st.log[k];
        let what = format!("{} of block {} ({}), device call {} of {} of {}", if call.write { "write" } else { "read" }, call.idx, region_of(sc, call.idx), k + 1, st.log.len(), last.show());
        w.disk.set_faults(vec![st.calls_before + k as u64]);
        let pre_img = w.disk.image();
        let pre_model = w.m.clone();
        let st2 = w.apply(*last, true);
        let fired = w.disk.0.borrow().fired;
        w.disk.set_faults(vec![]);
        if fired != 1 {
            crate::engine::machinery_fail(&format!("fault at call {} did not fire exactly once ({}): replay is not deterministic", k, fired));
        }
        let tag = format!("{}/{}", if call.write { "write" } else { "read" }, region_of(sc, call.idx));
        FAULT_RUNS.fetch_add(1, std::sync::atomic::Ordering::Relaxed);
        *FAULT_KINDS.lock().unwrap().entry(tag.clone()).or_insert(0) += 1;
        match &st2.res {
            Res::Err(_) => {}
            Res::Panic(m) if m.contains("HORIZON") => {
                out.push(viol("C11", format!("hang@{}/{}", last.kind(), tag), format!("failed {}: the call did not return within the device-call horizon", what), sc, hist));
                return;
            }
            Res::Panic(m) => {
                out.push(viol("C11", format!("panic@{}/{}", last.kind(), tag), format!("failed {}: panic: {}", what, m), sc, hist));
                return;
            }
            ok => {
                out.push(viol("C11", format!("error-swallowed@{}/{}", last.kind(), tag), format!("failed {}: the call returned {} instead of an error", what, ok.class()), sc, hist));
            }
        }
        // files not involved in the failed call are intact on the medium
        let vcx = &sc.vols[0];
        let post_img = w.disk.image();
        let (vpre, vpost) = (view(vcx, &pre_img), view(vcx, &post_img));
        let tgt = target_path(&pre_model, last);
        for n in vpre.tree.nodes.iter().filter(|n| !n.is_dir && n.ent.size <= 1 << 16) {
            if Some(&n.path) == tgt.as_ref() {
                continue;
            }
            match vpost.tree.find(&n.path) {
                Some(m) if m.ent.raw == n.ent.raw && refat::file_bytes(&post_img, &vcx.vol, m) == refat::file_bytes(&pre_img, &vcx.vol, n) => {}
                _ => out.push(viol("C11", format!("bystander-damaged@{}/{}", last.kind(), tag), format!("failed {}: file {} (not named by the call) changed on the medium", what, n.path), sc, hist)),
            }
        }
        // retry of a read-only call gives the fault-free answer
        let read_only = matches!(last, Op::List { .. } | Op::Find { .. } | Op::Read { .. });
        if read_only && matches!(st2.res, Res::Err(_)) {
            match last {
                Op::Read { f, n } => {
                    // "correct" = the bytes the model holds at the offset the handle now reports
                    if let (Some(h), Some(mf)) = (w.files[*f as usize], pre_model.files[*f as usize].as_ref()) {
                        let vm = &w.vm;
                        let r = catch_quiet(|| {
                            let off = vm.file_offset(h).map_err(|e| map_err(&e))?;
                            let mut buf = vec![0u8; *n as usize];
                            let k = vm.read(h, &mut buf).map_err(|e| map_err(&e))?;
                            buf.truncate(k);
                            Ok::<_, E>((off, buf))
                        });
                        let data = pre_model.file(mf).map(|x| x.data.clone()).unwrap_or_default();
                        match r {
                            Caught::Ok(Ok((off, buf))) => {
                                let end = (off as usize + *n as usize).min(data.len());
                                let want = if (off as usize) <= data.len() { &data[off as usize..end] } else { &[][..] };
                                if buf != want {
                                    out.push(viol("C11", format!("retry-wrong-answer@read/{}", tag), format!("after failed {}: retried read at offset {} returned {} bytes that differ from the file contents", what, off, buf.len()), sc, hist));
                                }
                            }
                            Caught::Ok(Err(e)) => out.push(viol("C11", format!("retry-fails@read/{}", tag), format!("after failed {}: retried read -> {:?}", what, e), sc, hist)),
                            Caught::Panic(m) => out.push(viol("C11", format!("retry-panics@read/{}", tag), format!("after failed {}: {}", what, m), sc, hist)),
                        }
                    }
                }
                _ => {
                    // restore the model (the failed call did not change the abstract state) and retry
                    w.m = pre_model.clone();
                    let st3 = w.apply(*last, false);
                    if st3.res != st.res {
                        out.push(viol("C11", format!("retry-wrong-answer@{}/{}", last.kind(), tag), format!("after failed {}: the retried call returned {} but the fault-free answer is {}", what, st3.res.class(), st.res.class()), sc, hist));
                    }
                }
            }
        }
        // re-issue the failed mutating call (and a create of the same name): never two entries with one name
        let reissue: Option<(u8, u8)> = match last {
            Op::Open { d, name, .. } => Some((*d, *name)),
            Op::Mkdir { d, name } => Some((*d, *name)),
            _ => None,
        };
        if let Some((d, name)) = reissue {
            if !w.dead {
                let vm = &w.vm;
                if let Some(dh) = w.dirs[d as usize] {
                    let nm = NAMES[name as usize];
                    let is_mkdir = matches!(last, Op::Mkdir { .. });
                    let free_slot = w.files.iter().position(|x| x.is_none());
                    let r = catch_quiet(|| {
                        if is_mkdir {
                            let _ = vm.make_dir_in_dir(dh, nm);
                        } else if let Op::Open { mode, .. } = last {
                            if free_slot.is_some() {
                                if let Ok(fh) = vm.open_file_in_dir(dh, nm, MODES[*mode as usize]) {
                                    let _ = vm.close_file(fh);
                                }
                            }
                        }
                        if free_slot.is_some() {
                            if let Ok(fh) = vm.open_file_in_dir(dh, nm, embedded_sdmmc::Mode::ReadWriteCreateOrAppend) {
                                let _ = vm.close_file(fh);
                            }
                        }
                    });
                    if let Caught::Panic(m) = r {
                        out.push(viol("C11", format!("reissue-panics@{}/{}", last.kind(), tag), format!("after failed {}: {}", what, m), sc, hist));
                    }
                    let img = w.disk.image();
                    let vv = view(vcx, &img);
                    if let Some(p) = vv.tree.problems.iter().find(|p| p.kind == "dir/duplicate-name") {
                        out.push(viol("C11", format!("duplicate-name@{}/{}", last.kind(), tag), format!("after failed {} and re-issuing the call: {}", what, p.detail), sc, hist));
                    }
                }
            }
        }
        // later operations must not damage files that were not involved: create G, re-issue the failed call,
        // create H, and G must still hold what was written to it
        if !w.dead && !matches!(last, Op::List { .. } | Op::Find { .. } | Op::Read { .. } | Op::SeekStart { .. }) {
            let vm = &w.vm;
            let dh = w.dirs.iter().flatten().next().cloned();
            let free_slot = w.files.iter().position(|x| x.is_none());
            if let (Some(dh), Some(_)) = (dh, free_slot) {
                let gdata: Vec<u8> = (0..700u32).map(|i| (i * 7 + 3) as u8).collect();
                let hdata: Vec<u8> = (0..700u32).map(|i| (i * 13 + 5) as u8).collect();
                let last2 = *last;
                let dirs2 = w.dirs;
                let r = catch_quiet(|| -> Result<Option<Vec<u8>>, String> {
                    let put = |name: &str, data: &[u8]| -> Result<(), String> {
                        let f = vm.open_file_in_dir(dh, name, embedded_sdmmc::Mode::ReadWriteCreateOrTruncate).map_err(|e| format!("create {}: {:?}", name, map_err(&e)))?;
                        let r = vm.write(f, data).map_err(|e| format!("write {}: {:?}", name, map_err(&e)));
                        vm.close_file(f).map_err(|e| format!("close {}: {:?}", name, map_err(&e)))?;
                        r
                    };
                    put("GGG.TMP", &gdata)?;
                    // re-issue the failed call
                    match last2 {
                        Op::Delete { d, name } => {
                            if let Some(h) = dirs2[d as usize] {
                                let _ = vm.delete_file_in_dir(h, NAMES[name as usize]);
                            }
                        }
                        Op::Open { d, name, mode, .. } => {
                            if let Some(h) = dirs2[d as usize] {
                                if let Ok(f) = vm.open_file_in_dir(h, NAMES[name as usize], MODES[mode as usize]) {
                                    let _ = vm.close_file(f);
                                }
                            }
                        }
                        Op::Mkdir { d, name } => {
                            if let Some(h) = dirs2[d as usize] {
                                let _ = vm.make_dir_in_dir(h, NAMES[name as usize]);
                            }
                        }
                        _ => {}
                    }
                    put("HHH.TMP", &hdata)?;
                    let f = vm.open_file_in_dir(dh, "GGG.TMP", embedded_sdmmc::Mode::ReadOnly).map_err(|e| format!("reopen G: {:?}", map_err(&e)))?;
                    let mut buf = vec![0u8; 800];
                    let n = vm.read(f, &mut buf).map_err(|e| format!("read G: {:?}", map_err(&e)))?;
                    buf.truncate(n);
                    let _ = vm.close_file(f);
                    Ok(Some(buf))
                });
                match r {
                    Caught::Ok(Ok(Some(buf))) if buf == gdata => {}
                    Caught::Ok(Ok(Some(buf))) => out.push(viol("C11", format!("later-file-damaged@{}/{}", last.kind(), tag), format!("after failed {}: a file created afterwards (700 bytes) read back {} bytes that differ, after the failed call was re-issued and another file written", what, buf.len()), sc, hist)),
                    Caught::Ok(Ok(None)) => {}
                    // running out of space or directory slots here is not the property's concern
                    Caught::Ok(Err(_)) => {}
                    Caught::Panic(m) => out.push(viol("C11", format!("panic-after-fault@{}/{}", last.kind(), tag), format!("after failed {}: {}", what, m), sc, hist)),
                }
                // clean up so that the handle check below sees the same open set
                let _ = vm.delete_file_in_dir(dh, "GGG.TMP");
                let _ = vm.delete_file_in_dir(dh, "HHH.TMP");
            }
        }
        // every handle can still be used and closed, and the tables drain
        if w.dead {
            return;
        }
        match drain(&w) {
            Caught::Ok(Ok(())) => {}
            Caught::Ok(Err(e)) => out.push(viol("C11", format!("handle-unusable-after-fault@{}/{}", last.kind(), tag), format!("after failed {}: {}", what, e), sc, hist)),
            Caught::Panic(m) => out.push(viol("C11", format!("panic-after-fault@{}/{}", last.kind(), tag), format!("after failed {}: {}", what, m), sc, hist)),
        }
    }
}

/// Use every handle the harness holds, close them all, close the volumes, and demand that nothing stays open.
fn drain(w: &World) -> Caught<Result<(), String>> {
    let vm = &w.vm;
    let files: Vec<_> = w.files.iter().flatten().cloned().collect();
    let dirs: Vec<_> = w.dirs.iter().flatten().cloned().collect();
    let vols: Vec<_> = w.vols.iter().flatten().cloned().collect();
    catch_quiet(|| -> Result<(), String> {
        for h in &files {
            vm.file_length(*h).map_err(|e| format!("file_length: {:?}", map_err(&e)))?;
            vm.file_seek_from_start(*h, 0).map_err(|e| format!("seek: {:?}", map_err(&e)))?;
            let mut b = [0u8; 16];
            vm.read(*h, &mut b).map_err(|e| format!("read: {:?}", map_err(&e)))?;
        }
        for d in &dirs {
            vm.iterate_dir(*d, |_| {}).map_err(|e| format!("iterate_dir: {:?}", map_err(&e)))?;
        }
        for h in &files {
            vm.close_file(*h).map_err(|e| format!("close_file: {:?}", map_err(&e)))?;
        }
        for d in &dirs {
            vm.close_dir(*d).map_err(|e| format!("close_dir: {:?}", map_err(&e)))?;
        }
        for v in &vols {
            vm.close_volume(*v).map_err(|e| format!("close_volume: {:?}", map_err(&e)))?;
        }
        if vm.has_open_handles() {
            return Err("has_open_handles() is still true after every handle the caller holds was closed".into());
        }
        Ok(())
    })
}

/// Calls of the public API that are not part of the operation alphabet (they do not change the abstract state).
#[derive(Clone, Copy, Debug)]
enum Extra {
    Label(usize),
    ListLfn(usize),
}

impl Extra {
    fn show(&self) -> String {
        match self {
            Extra::Label(v) => format!("get_root_volume_label(v{})", v),
            Extra::ListLfn(d) => format!("iterate_dir_lfn(d{})", d),
        }
    }
    fn kind(&self) -> &'static str {
        match self {
            Extra::Label(_) => "get_root_volume_label",
            Extra::ListLfn(_) => "iterate_dir_lfn",
        }
    }
    fn run(&self, w: &World) -> Caught<Result<String, E>> {
        let vm = &w.vm;
        match *self {
            Extra::Label(v) => {
                let h = w.vols[v].unwrap();
                catch_quiet(|| vm.get_root_volume_label(h).map(|l| format!("{:?}", l)).map_err(|e| map_err(&e)))
            }
            Extra::ListLfn(d) => {
                let h = w.dirs[d].unwrap();
                catch_quiet(|| {
                    let mut store = [0u8; 96];
                    let mut lb = embedded_sdmmc::LfnBuffer::new(&mut store);
                    let mut names: Vec<String> = Vec::new();
                    vm.iterate_dir_lfn(h, &mut lb, |de, l| names.push(format!("{}:{:?}", de.name, l))).map(|_| names.join(",")).map_err(|e| map_err(&e))
                })
            }
        }
    }
}

pub static EXTRA_FAULT_RUNS: std::sync::atomic::AtomicU64 = std::sync::atomic::AtomicU64::new(0);

fn extra_faults(sc: &Scenario, hist: &[Op], w: &World, out: &mut Vec<Violation>) {
    if w.dead {
        return;
    }
    let mut xs: Vec<Extra> = Vec::new();
    for v in 0..w.vols.len() {
        if w.vols[v].is_some() {
            xs.push(Extra::Label(v));
        }
    }
    for d in 0..w.dirs.len() {
        if w.dirs[d].is_some() {
            xs.push(Extra::ListLfn(d));
        }
    }
    for x in xs {
        let w0 = sc.replay(hist);
        if w0.dead {
            return;
        }
        let before = w0.disk.calls();
        w0.disk.take_log();
        w0.disk.0.borrow_mut().logging = true;
        let base = match x.run(&w0) {
            Caught::Ok(Ok(s)) => s,
            Caught::Ok(Err(_)) => continue,
            Caught::Panic(m) => {
                out.push(viol("C11", format!("panic@{}/no-fault", x.kind()), format!("{} panics without any device fault: {}", x.show(), m), sc, hist));
                continue;
            }
        };
        let log = w0.disk.take_log();
        let n = w0.disk.calls() - before;
        for k in 0..n {
            if crate::engine::past_deadline() {
                return;
            }
            let w1 = sc.replay(hist);
            if w1.dead || w1.disk.calls() != before {
                crate::engine::machinery_fail("replay is not deterministic (extra-call fault probe)");
            }
            let call = log.get(k as usize);
            let tag = match call {
                Some(c) => format!("{}/{}", if c.write { "write" } else { "read" }, region_of(sc, c.idx)),
                None => "call".to_string(),
            };
            let what = format!("device call {} of {} of {} ({})", k + 1, n, x.show(), tag);
            let fired0 = w1.disk.0.borrow().fired;
            w1.disk.set_faults(vec![before + k]);
            let r = x.run(&w1);
            let fired = w1.disk.0.borrow().fired - fired0;
            w1.disk.set_faults(vec![]);
            if fired != 1 {
                crate::engine::machinery_fail(&format!("fault at call {} of {} did not fire exactly once ({})", k, x.show(), fired));
            }
            EXTRA_FAULT_RUNS.fetch_add(1, std::sync::atomic::Ordering::Relaxed);
            FAULT_RUNS.fetch_add(1, std::sync::atomic::Ordering::Relaxed);
            *FAULT_KINDS.lock().unwrap().entry(format!("{}:{}", x.kind(), tag)).or_insert(0) += 1;
            match r {
                Caught::Ok(Err(_)) => {}
                Caught::Ok(Ok(s)) => out.push(viol("C11", format!("error-swallowed@{}/{}", x.kind(), tag), format!("failed {}: the call returned Ok({}) instead of an error", what, s), sc, hist)),
                Caught::Panic(m) if m.contains("HORIZON") => {
                    out.push(viol("C11", format!("hang@{}/{}", x.kind(), tag), format!("failed {}: the call did not return within the device-call horizon", what), sc, hist));
                    continue;
                }
                Caught::Panic(m) => {
                    out.push(viol("C11", format!("panic@{}/{}", x.kind(), tag), format!("failed {}: panic: {}", what, m), sc, hist));
                    continue;
                }
            }
            // the retried call gives the fault-free answer
            match x.run(&w1) {
                Caught::Ok(Ok(s)) if s == base => {}
                Caught::Ok(Ok(s)) => out.push(viol("C11", format!("retry-wrong-answer@{}/{}", x.kind(), tag), format!("after failed {}: the retried call returned {} but the fault-free answer is {}", what, s, base), sc, hist)),
                Caught::Ok(Err(e)) => out.push(viol("C11", format!("retry-fails@{}/{}", x.kind(), tag), format!("after failed {}: the retried call -> {:?}", what, e), sc, hist)),
                Caught::Panic(m) => out.push(viol("C11", format!("retry-panics@{}/{}", x.kind(), tag), format!("after failed {}: {}", what, m), sc, hist)),
            }
            // nothing stays open behind the caller's back
            match drain(&w1) {
                Caught::Ok(Ok(())) => {}
                Caught::Ok(Err(e)) => out.push(viol("C11", format!("handle-unusable-after-fault@{}/{}", x.kind(), tag), format!("after failed {}: {}", what, e), sc, hist)),
                Caught::Panic(m) => out.push(viol("C11", format!("panic-after-fault@{}/{}", x.kind(), tag), format!("after failed {}: {}", what, m), sc, hist)),
            }
        }
    }
}

fn target_path(m: &Model, op: &Op) -> Option<String> {
    let path = |dir: &[[u8; 11]], name: &[u8; 11]| {
        let mut s = String::new();
        for d in dir {
            s.push('/');
            s.push_str(&key_str(d));
        }
        s.push('/');
        s.push_str(&key_str(name));
        s
    };
    match *op {
        Op::Open { d, name, .. } | Op::Delete { d, name } | Op::Mkdir { d, name } => {
            let dp = m.dirs[d as usize].as_ref()?;
            let k = crate::names83::norm83(NAMES[name as usize])?;
            Some(path(&dp.path, &k))
        }
        Op::Write { f, .. } | Op::Fill { f } | Op::Flush { f } | Op::Close { f } => {
            let h = m.files[f as usize].as_ref()?;
            Some(path(&h.dir, &h.name))
        }
        _ => None,
    }
}

impl Oracle for Faults {
    fn on_new_state(&self, sc: &Scenario, hist: &[Op], w: &World, out: &mut Vec<Violation>) {
        extra_faults(sc, hist, w, out);
    }
    fn check(&self, sc: &Scenario, hist: &[Op], _w: &World, st: &Step, out: &mut Vec<Violation>) {
        if st.log.is_empty() || matches!(st.res, Res::Panic(_)) {
            return;
        }
        for k in 0..st.log.len() {
            if crate::engine::past_deadline() {
                return;
            }
            self.one(sc, hist, st, k, out);
        }
        if self.pairs && hist.len() >= 2 {
            // deviation bound 2: one fault in the previous operation, one in this one
            let (last, prefix) = hist.split_last().unwrap();
            let (_, st_prev) = sc.replay_observed(prefix);
            for k1 in 0..st_prev.log.len() {
                for k2 in 0..st.log.len() {
                    let (prev, pp) = prefix.split_last().unwrap();
                    let mut w = sc.replay(pp);
                    w.disk.set_faults(vec![st_prev.calls_before + k1 as u64]);
                    let s1 = w.apply(*prev, false);
                    if w.dead || !w.enabled(last) {
                        continue;
                    }
                    let base = w.disk.calls();
                    w.disk.set_faults(vec![base + k2 as u64]);
                    FAULT_RUNS.fetch_add(1, std::sync::atomic::Ordering::Relaxed);
                    let fired0 = w.disk.0.borrow().fired;
                    let s2 = w.apply(*last, false);
                    let fired = w.disk.0.borrow().fired - fired0;
                    let what = format!("faults at call {} of {} and call {} of {}", k1 + 1, prev.show(), k2 + 1, last.show());
                    match &s2.res {
                        Res::Panic(m) => out.push(viol("C11", format!("two-faults/panic@{}", last.kind()), format!("{}: {}", what, m), sc, hist)),
                        r if r.is_ok() && fired > 0 => out.push(viol("C11", format!("two-faults/error-swallowed@{}", last.kind()), format!("{}: second call returned {}", what, r.class()), sc, hist)),
                        _ => {}
                    }
                    let _ = s1;
                }
            }
        }
    }
}

fn scenarios(tier: &str) -> Vec<(String, ScenMaker)> {
    let quick = tier == "quick";
    let mut v: Vec<(String, ScenMaker)> = Vec::new();
    // (volume, SUB free slots, free clusters): the nearly-full layouts make allocations take the highest free cluster,
    // so that the search for the next free one wraps round to the start of the FAT
    let mut layouts: Vec<(VolKind, usize, Option<usize>)> = vec![(VolKind::V16a, 1, None), (VolKind::V32a, 1, None), (VolKind::V32a, 0, None), (VolKind::V16a, 1, Some(2)), (VolKind::V16b, 0, Some(1))];
    if !quick {
        layouts.push((VolKind::V16a, 0, None));
        // (a whole-FAT scan on FAT32 is 513 device calls, each of them a fault position)
        layouts.push((VolKind::V32a, 0, Some(1)));
    }
    {
        for (k, sub_free, free) in layouts {
            let o = MutOpts {
                kind: k,
                free,
                root_free_slots: None,
                sub_free_slots: sub_free,
                fsinfo: FsInfo::Correct,
                depth: if quick { 3 } else { 4 },
                moving_clock: false,
                alphabet: Alpha::Mutate,
                victim: false,
                front: Front::Raw,
            };
            let name = super::fsprops::mut_name(&o, "faults");
            v.push((
                name,
                Box::new(move || {
                    let mut sc = mut_scenario(&o, "faults");
                    // add the read-only calls
                    for d in 0..2u8 {
                        sc.alphabet.push(Op::List { d });
                        sc.alphabet.push(Op::Find { d, name: 1 });
                        sc.alphabet.push(Op::Find { d, name: 13 });
                    }
                    for f in 0..2u8 {
                        sc.alphabet.push(Op::Read { f, n: 700 });
                        sc.alphabet.push(Op::SeekStart { f, o: 0 });
                    }
                    sc.alphabet.push(Op::OpenDir { p: 1, name: 6, d: 2 });
                    sc.alphabet.push(Op::CloseVol { v: 0 });
                    sc
                }),
            ));
        }
    }
    v
}

pub fn def(pairs: bool) -> HistProp {
    HistProp {
        id: "C11",
        level: "fault_enumeration",
        scenarios,
        oracles: if pairs { || vec![Box::new(Faults { pairs: true })] } else { || vec![Box::new(Faults { pairs: false })] },
        budget_s: |t| if t == "quick" { 50 } else { 900 },
        max_states: 500_000,
        assumptions: &[
            "a failed read scribbles the caller's buffer with 0xA5; a failed write is not applied",
            "the property's 'random multi-fault sequences' are replaced by every pair (previous operation, this operation) of fault positions in the thorough tier",
            "SUB spans two fragmented clusters so FAT reads happen inside directory walks",
        ],
    }
}
