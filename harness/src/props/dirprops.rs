//! C06 (listing and lookup report exactly the live entries) and C07 (open modes,
//! read-only protection and typing).

use super::common::{HistProp, ScenMaker};
use super::fsprops::{mut_scenario, Alpha, MutOpts, VolKind};
use crate::engine::{viol, Oracle, Report, Scenario, Violation};
use crate::mkfs::{self, lfn_slot, short_entry, FsInfo, Geom, Mk, FMT_DATE, FMT_TIME};
use crate::refat::{self, DirLoc, Vol};
use crate::scen;
use crate::simdisk::{BaseImage, Blk, Clock, Image, Rd, SimDisk};
use crate::util::{catch_quiet, hex, par_map, Caught};
use crate::world::*;
use embedded_sdmmc::{Mode, RawDirectory, VolumeIdx, VolumeManager};
use serde_json::{json, Value};
use std::sync::Arc;

type Vm = VolumeManager<SimDisk, Clock, 8, 4, 1>;

fn v6(sig: &str, detail: String, input: Value) -> Violation {
    Violation {
        prop: "C06".into(),
        sig: sig.into(),
        detail,
        scenario: "input".into(),
        hist: vec![],
        input: Some(input),
    }
}

// ---- C06: directory contents enumeration -----------------------------------------

#[derive(Clone)]
pub struct Placement {
    pub name: String,
    pub base: Arc<BaseImage>,
    pub vol: Vol,
    pub loc: DirLoc,
    /// path from the root (names to open_dir in turn)
    pub path: Vec<&'static str>,
    /// index of the first slot the sequence occupies
    pub first_slot: usize,
    pub file_cluster: u32,
    pub dir_cluster: u32,
}

fn placements() -> Vec<Placement> {
    let mut out = Vec::new();
    let build = |name: &str, g: Geom, in_sub: bool, chain: &[u32], pad: usize| -> Placement {
        // on volumes with more than 65536 clusters the targets live above cluster 65535 (32-bit cluster numbers)
        let (file_cluster, dir_cluster) = if g.clusters > 66_000 { (66_050u32, 66_051u32) } else { (50u32, 51u32) };
        let mut mk = Mk::new(g);
        let root = mk.root();
        // targets of the live-file / live-directory symbols (entries for them are written per case)
        mk.set_chain(&[file_cluster]);
        mk.fill_file(&[file_cluster], 100, 77);
        // a real directory with one entry, reachable only through the per-case entries
        let holder = mk.mkdir(root, "HOLDER", &[dir_cluster]);
        mk.file(holder, "INSIDE.TXT", 0x20, &[dir_cluster + 1], 10, 78);
        let (dir, loc, path): (mkfs::Dir, DirLoc, Vec<&'static str>) = if in_sub {
            let d = mk.mkdir(root, "SUB", chain);
            (d, DirLoc::Chain(chain[0]), vec!["SUB"])
        } else {
            (root, if mk.g.fat32 { DirLoc::Chain(mk.g.root_cluster) } else { DirLoc::Root16 }, vec![])
        };
        for i in 0..pad {
            mk.file(dir, &format!("PAD{:03}.BIN", i), 0x20, &[], 0, 0);
        }
        let first_slot = mk.next_slot(dir);
        let base = mk.finish(FsInfo::Correct);
        let vol = refat::locate(&base, 0).unwrap();
        Placement {
            name: name.to_string(),
            base: Arc::new(base),
            vol,
            loc,
            path,
            first_slot,
            file_cluster,
            dir_cluster,
        }
    };
    // (a) start of a one-cluster directory
    out.push(build("subdir-start/fat16", scen::g_v16a(), true, &[30], 0));
    // (b) straddling a cluster boundary of a fragmented multi-cluster directory (slots 13..18 of 16-slot clusters)
    out.push(build("subdir-straddle/fat16", scen::g_v16a(), true, &[30, 25, 40], 11));
    let mut g = scen::g_v32a();
    g.spc = 1;
    out.push(build("subdir-straddle/fat32", g, true, &[30, 25, 40], 11));
    // (c) FAT16 roots of 16 / 32 / 512 entries
    for re in [16u16, 32, 40, 512] {
        let mut g = scen::g_v16a();
        g.root_entries = re;
        if re == 32 {
            // blank label in the boot sector: get_root_volume_label searches the root directory
            g.label = *b"           ";
        }
        // HOLDER occupies one root slot; pad so that the sequence ends exactly at / near the end of the root region
        // (40 entries: the sequence lies in the trailing, partially used root block)
        let pad = if re == 16 { 9 } else if re == 32 { 12 } else if re == 40 { 32 } else { 13 };
        out.push(build(&format!("root16-{}", re), g, false, &[], pad));
    }
    // (e) FAT32 with start clusters above 65535
    let mut g = scen::g_v32a();
    g.clusters = 70_000;
    out.push(build("subdir-start/fat32-high-clusters", g, true, &[66_000], 0));
    // (d) FAT32 roots starting at cluster 2 and 5
    for rc in [2u32, 5] {
        let mut g = scen::g_v32a();
        g.root_cluster = rc;
        if rc == 5 {
            g.label = *b"           ";
        }
        out.push(build(&format!("root32-at-{}", rc), g, false, &[], 12));
    }
    out
}

const SYMBOLS: [&str; 7] = ["file", "dir", "deleted", "label", "lfn+short", "lfn-spelling-8.3", "end"];

fn sym_slots(p: &Placement, sym: usize, pos: usize) -> Vec<[u8; 32]> {
    let t = (FMT_DATE, FMT_TIME);
    match sym {
        0 => {
            // attribute combinations and the fields this library does not interpret vary with the position
            let attr = [0x20u8, 0x27, 0x02, 0x04, 0x21, 0x00][pos % 6];
            let mut e = short_entry(&mkfs::n11(&format!("F{}.TXT", pos)), attr, p.file_cluster, 100, t.0, t.1, t.0, t.1 + 1);
            if pos % 2 == 1 {
                e[12] = 0x18;
                e[13] = 199;
                e[18..20].copy_from_slice(&t.0.to_le_bytes());
            }
            if !p.vol.fat32 && pos % 3 == 1 {
                // FAT16: bytes 20..22 are not a cluster field
                e[20..22].copy_from_slice(&[0xEF, 0xBE]);
            }
            vec![e]
        }
        1 => vec![short_entry(&mkfs::n11(&format!("D{}", pos)), 0x10, p.dir_cluster, 0, t.0, t.1, t.0, t.1)],
        2 => {
            let mut e = short_entry(&mkfs::n11("XELETED.TXT"), 0x20, p.file_cluster, 100, t.0, t.1, t.0, t.1);
            e[0] = 0xE5;
            vec![e]
        }
        3 => vec![short_entry(b"MYLABEL    ", 0x08, 0, 0, t.0, t.1, t.0, t.1)],
        4 => {
            let short = mkfs::n11(&format!("LONG{}~1.TXT", pos));
            let long: Vec<u16> = format!("long name {}", pos).encode_utf16().collect();
            let mut v = mkfs::lfn_slots(&long, mkfs::lfn_checksum(&short));
            v.push(short_entry(&short, 0x20, p.file_cluster, 100, t.0, t.1, t.0, t.1));
            v
        }
        5 => {
            // an LFN slot whose first 11 bytes read "ABBBBBBBBBB"
            let units = [0x4242u16; 13];
            vec![lfn_slot(1, true, 0x42, &units)]
        }
        _ => vec![[0u8; 32]],
    }
}

pub fn universe(len: usize) -> Vec<String> {
    let mut u: Vec<String> = vec!["ABBBBBBB.BBB".into(), "\u{00E5}ELETED.TXT".into(), "MYLABEL".into(), "NOPE.BIN".into(), ".".into(), "..".into(), "PAD000.BIN".into(), "HOLDER".into(), "SUB".into()];
    for pos in 0..len {
        u.push(format!("F{}.TXT", pos));
        u.push(format!("D{}", pos));
        u.push(format!("LONG{}~1.TXT", pos));
    }
    u
}

fn slot_block(p: &Placement, fat: &[u32], slot: usize) -> (u32, usize) {
    match p.loc {
        DirLoc::Root16 => (p.vol.lba + p.vol.root_start + (slot / 16) as u32, (slot % 16) * 32),
        DirLoc::Chain(c) => {
            let (ch, _) = refat::chain(fat, &p.vol, c);
            let per = 16 * p.vol.spc as usize;
            (p.vol.cluster_block(ch[slot / per]) + ((slot % per) / 16) as u32, (slot % 16) * 32)
        }
    }
}

pub fn place(p: &Placement, slots: &[[u8; 32]]) -> Option<Image> {
    let mut img = Image::new(p.base.clone());
    let fat = refat::read_fat(&*p.base, &p.vol, 0);
    let capacity = match p.loc {
        DirLoc::Root16 => p.vol.root_entries as usize,
        DirLoc::Chain(c) => refat::chain(&fat, &p.vol, c).0.len() * 16 * p.vol.spc as usize,
    };
    if p.first_slot + slots.len() > capacity {
        return None;
    }
    for (i, s) in slots.iter().enumerate() {
        let (b, o) = slot_block(p, &fat, p.first_slot + i);
        let mut blk: Blk = img.rd(b);
        blk[o..o + 32].copy_from_slice(s);
        img.put(b, &blk);
    }
    Some(img)
}

fn crate_list(vm: &Vm, d: RawDirectory) -> Result<Vec<ListEnt>, String> {
    let mut out = Vec::new();
    vm.iterate_dir(d, |de| out.push(list_ent(de, None))).map_err(|e| format!("{:?}", map_err(&e)))?;
    Ok(out)
}

fn same_entry(l: &ListEnt, e: &refat::Ent, fat32: bool) -> Result<(), String> {
    if l.name != e.name {
        return Err(format!("name {:?} vs {:?}", String::from_utf8_lossy(&l.name), e.name_str()));
    }
    if l.attr != e.attr & 0x3F {
        return Err(format!("{}: attributes {:#04x} vs {:#04x}", e.name_str(), l.attr, e.attr));
    }
    if l.size != e.size {
        return Err(format!("{}: size {} vs {}", e.name_str(), l.size, e.size));
    }
    // Timestamp::from_fat is total: month/day 0 are mapped to 1 by the crate ("tolerate that")
    let norm = |t: (u32, u32, u32, u32, u32, u32)| (t.0, t.1.max(1), t.2.max(1), t.3, t.4, t.5);
    if l.ctime != norm(refat::decode_ts(e.cdate, e.ctime)) || l.mtime != norm(refat::decode_ts(e.wdate, e.wtime)) {
        return Err(format!("{}: times {:?}/{:?} vs {:?}/{:?}", e.name_str(), l.ctime, l.mtime, refat::decode_ts(e.cdate, e.ctime), refat::decode_ts(e.wdate, e.wtime)));
    }
    if l.entry_block != e.block || l.entry_offset as usize != e.off {
        return Err(format!("{}: entry position ({}, {}) vs ({}, {})", e.name_str(), l.entry_block, l.entry_offset, e.block, e.off));
    }
    let zero = e.cluster == 0 || (!fat32 && e.cluster & 0xFFFF == 0);
    if zero != (l.cluster_is_empty || (l.cluster_is_root && e.is_dir())) {
        return Err(format!("{}: start cluster on disk {} but reported {}", e.name_str(), e.cluster, l.cluster_dbg));
    }
    Ok(())
}

/// Compare listing, lookup and open_dir of one directory with the independent reader.
pub fn check_dir(img: &Image, vol: &Vol, loc: DirLoc, path: &[&str], names: &[String], inp: &Value) -> Vec<Violation> {
    let mut out = Vec::new();
    let fat = refat::read_fat(img, vol, 0);
    let (slots, _, _) = refat::dir_slots(img, vol, &fat, loc);
    let want = refat::live_entries(&slots, vol.fat32);
    let img2 = img.clone();
    let r = catch_quiet(|| -> Result<Vec<Violation>, String> {
        let mut out = Vec::new();
        let disk = SimDisk::new(img2.clone());
        disk.set_horizon(500_000);
        let vm: Vm = VolumeManager::new_with_limits(disk, Clock::new(), 10);
        let v = vm.open_raw_volume(VolumeIdx(0)).map_err(|e| format!("open_volume {:?}", map_err(&e)))?;
        let mut d = vm.open_root_dir(v).map_err(|e| format!("open_root {:?}", map_err(&e)))?;
        for p in path {
            let n = vm.open_dir(d, *p).map_err(|e| format!("open_dir {} {:?}", p, map_err(&e)))?;
            vm.close_dir(d).ok();
            d = n;
        }
        if path.is_empty() {
            // the volume label: the boot sector's if it has one, otherwise the first label entry of the root directory
            let bs = img2.rd(vol.lba);
            let o = if vol.fat32 { 71 } else { 43 };
            let trim = |b: &[u8]| -> Vec<u8> {
                let mut v = b.to_vec();
                while v.last() == Some(&b' ') {
                    v.pop();
                }
                v
            };
            let bpb = trim(&bs[o..o + 11]);
            let want_label: Option<Vec<u8>> = if !bpb.is_empty() { Some(bpb) } else { want.iter().find(|e| e.attr == 0x08).map(|e| trim(&e.name)) };
            let got_label = vm.get_root_volume_label(v).map_err(|e| format!("get_root_volume_label {:?}", map_err(&e)))?.map(|l| l.name().to_vec());
            if got_label != want_label {
                out.push(v6("label/wrong-volume-label", format!("get_root_volume_label returns {:?}, the medium says {:?}", got_label.map(|b| String::from_utf8_lossy(&b).to_string()), want_label.map(|b| String::from_utf8_lossy(&b).to_string())), inp.clone()));
            }
            if vm.close_dir(d).is_err() {
                out.push(v6("label/closes-the-callers-directory", "the root directory handle opened before get_root_volume_label is no longer open".into(), inp.clone()));
                return Ok(out);
            }
            d = vm.open_root_dir(v).map_err(|e| format!("open_root after label {:?}", map_err(&e)))?;
        }
        let got = crate_list(&vm, d).map_err(|e| format!("iterate_dir: {}", e))?;
        if got.len() != want.len() {
            let kind = if got.len() > want.len() { "lists-more-than-live-entries" } else { "lists-fewer-than-live-entries" };
            out.push(v6(&format!("listing/{}", kind), format!("crate lists {:?}, live entries are {:?}", got.iter().map(|l| refat::name_to_string(&l.name)).collect::<Vec<_>>(), want.iter().map(|e| e.name_str()).collect::<Vec<_>>()), inp.clone()));
            return Ok(out);
        }
        for (l, e) in got.iter().zip(want.iter()) {
            if let Err(m) = same_entry(l, e, vol.fat32) {
                out.push(v6("listing/entry-fields-differ", m, inp.clone()));
                return Ok(out);
            }
        }
        // the long-name listing visits the same entries in the same order (whatever long names it attaches)
        {
            let mut store = [0u8; 128];
            let mut lb = embedded_sdmmc::LfnBuffer::new(&mut store);
            let mut got2: Vec<ListEnt> = Vec::new();
            vm.iterate_dir_lfn(d, &mut lb, |de, _| got2.push(list_ent(de, None))).map_err(|e| format!("iterate_dir_lfn: {:?}", map_err(&e)))?;
            if got2 != got {
                let kind = if got2.len() > got.len() {
                    "lists-more-than-live-entries"
                } else if got2.len() < got.len() {
                    "lists-fewer-than-live-entries"
                } else {
                    "entry-fields-differ"
                };
                out.push(v6(&format!("listing-lfn/{}", kind), format!("iterate_dir_lfn lists {:?}, live entries are {:?}", got2.iter().map(|l| refat::name_to_string(&l.name)).collect::<Vec<_>>(), want.iter().map(|e| e.name_str()).collect::<Vec<_>>()), inp.clone()));
                return Ok(out);
            }
        }
        // start cluster, behaviourally: files read what refat reads, directories list what refat lists
        for e in want.iter().filter(|e| !e.is_label() && !e.is_dot()) {
            if e.is_dir() && vol.in_range(e.cluster) {
                continue; // covered by the open_dir probe below
            }
            if !e.is_dir() && vol.in_range(e.cluster) && e.size <= 4096 {
                let name = unsafe_name(&e.name);
                if let Ok(f) = vm.open_file_in_dir(d, name.as_str(), Mode::ReadOnly) {
                    let mut buf = vec![0u8; e.size as usize + 8];
                    let n = vm.read(f, &mut buf).map_err(|x| format!("read {:?}", map_err(&x)))?;
                    let (ch, _) = refat::chain(&fat, vol, e.cluster);
                    let ref_bytes = refat::read_chain_bytes(&img2, vol, &ch, e.size);
                    if buf[..n] != ref_bytes[..] {
                        out.push(v6("listing/start-cluster-leads-elsewhere", format!("{}: bytes read through the crate differ from the chain at cluster {}", e.name_str(), e.cluster), inp.clone()));
                    }
                    vm.close_file(f).ok();
                }
            }
        }
        // lookup and open_dir for every name of the universe
        for name in names {
            let Some(key) = crate::names83::norm83(name) else { continue };
            let first = want.iter().find(|e| e.name == key);
            let is_dot = name == "." || name == "..";
            match (vm.find_directory_entry(d, name.as_str()), first) {
                (Ok(de), Some(e)) => {
                    let l = list_ent(&de, None);
                    if let Err(m) = same_entry(&l, e, vol.fat32) {
                        out.push(v6("lookup/returns-a-different-entry", format!("find {:?}: {}", name, m), inp.clone()));
                    }
                }
                (Err(embedded_sdmmc::Error::NotFound), None) => {}
                (Ok(de), None) => {
                    let l = list_ent(&de, None);
                    let what = if slots.iter().any(|s| s.raw[0] == 0xE5 && s.raw[1..11] == key[1..11]) && key[0] == 0xE5 {
                        "deleted-entry"
                    } else if slots.iter().any(|s| refat::is_lfn_slot(&s.raw) && s.raw[0..11] == key) {
                        "long-name-fragment"
                    } else {
                        "unlisted-entry"
                    };
                    out.push(v6(&format!("lookup/finds-{}", what), format!("find {:?} succeeds ({} bytes, attr {:#04x}) but the listing has no such entry", name, l.size, l.attr), inp.clone()));
                }
                (Err(e), Some(_)) => out.push(v6("lookup/misses-listed-entry", format!("find {:?} -> {:?} although the entry is listed", name, map_err(&e)), inp.clone())),
                (Err(e), None) => out.push(v6("lookup/wrong-error-for-missing-name", format!("find {:?} -> {:?}, expected NotFound", name, map_err(&e)), inp.clone())),
            }
            // open_dir succeeds exactly for names listed as directories ("." always, by documentation)
            let listed_dir = first.map(|e| e.is_dir()).unwrap_or(false);
            let expect_ok = listed_dir || name == ".";
            match vm.open_dir(d, name.as_str()) {
                Ok(sub) => {
                    if !expect_ok {
                        let what = if first.is_some() { "a-file" } else { "an-unlisted-name" };
                        out.push(v6(&format!("open_dir/succeeds-for-{}", what), format!("open_dir {:?} succeeded", name), inp.clone()));
                    } else {
                        // it must list what the designated directory holds
                        let target: DirLoc = if name == "." {
                            loc
                        } else {
                            let c = first.unwrap().cluster;
                            if c == 0 {
                                refat::root_loc(vol)
                            } else {
                                DirLoc::Chain(c)
                            }
                        };
                        let (ts, _, _) = refat::dir_slots(&img2, vol, &fat, target);
                        let twant: Vec<[u8; 11]> = refat::live_entries(&ts, vol.fat32).iter().map(|e| e.name).collect();
                        let tgot: Vec<[u8; 11]> = crate_list(&vm, sub).map_err(|e| format!("iterate sub: {}", e))?.iter().map(|l| l.name).collect();
                        if tgot != twant {
                            out.push(v6("open_dir/leads-to-a-different-directory", format!("open_dir {:?} lists {} entries, the designated directory has {}", name, tgot.len(), twant.len()), inp.clone()));
                        }
                    }
                    vm.close_dir(sub).ok();
                }
                Err(e) => {
                    if expect_ok {
                        out.push(v6("open_dir/fails-for-listed-directory", format!("open_dir {:?} -> {:?}", name, map_err(&e)), inp.clone()));
                    }
                    let _ = is_dot;
                }
            }
            // the same through Directory::change_dir, on a second handle to this directory
            if let Ok(h2) = vm.open_dir(d, ".") {
                let mut dw = h2.to_directory(&vm);
                let r = dw.change_dir(name.as_str());
                let mut now: Vec<[u8; 11]> = Vec::new();
                let lr = dw.iterate_dir(|de| now.push(list_ent(de, None).name));
                drop(dw);
                let here: Vec<[u8; 11]> = got.iter().map(|l| l.name).collect();
                match (r.is_ok(), expect_ok) {
                    (true, false) => out.push(v6("change_dir/succeeds-for-a-name-that-is-no-directory", format!("change_dir {:?} succeeded", name), inp.clone())),
                    (false, true) => out.push(v6("change_dir/fails-for-listed-directory", format!("change_dir {:?} failed", name), inp.clone())),
                    (true, true) => {
                        let target: DirLoc = if name == "." {
                            loc
                        } else {
                            let c = first.unwrap().cluster;
                            if c == 0 {
                                refat::root_loc(vol)
                            } else {
                                DirLoc::Chain(c)
                            }
                        };
                        let (ts, _, _) = refat::dir_slots(&img2, vol, &fat, target);
                        let twant: Vec<[u8; 11]> = refat::live_entries(&ts, vol.fat32).iter().map(|e| e.name).collect();
                        if lr.is_err() || now != twant {
                            out.push(v6("change_dir/leads-to-a-different-directory", format!("after change_dir {:?} the handle lists {} entries, the designated directory has {}", name, now.len(), twant.len()), inp.clone()));
                        }
                    }
                    (false, false) => {
                        if lr.is_err() || now != here {
                            out.push(v6("change_dir/failed-call-moved-the-handle", format!("after the refused change_dir {:?} the handle lists {} entries, its directory has {}", name, now.len(), here.len()), inp.clone()));
                        }
                    }
                }
            }
        }
        Ok(out)
    });
    match r {
        Caught::Ok(Ok(v)) => out.extend(v),
        Caught::Ok(Err(e)) => out.push(v6("listing/error", e, inp.clone())),
        Caught::Panic(m) => out.push(v6("listing/panic", m, inp.clone())),
    }
    out
}

fn unsafe_name(n: &[u8; 11]) -> String {
    // Latin-1 bytes -> chars
    let base: String = n[..8].iter().filter(|&&c| c != b' ').map(|&c| c as char).collect();
    let ext: String = n[8..].iter().filter(|&&c| c != b' ').map(|&c| c as char).collect();
    if ext.is_empty() {
        base
    } else {
        format!("{}.{}", base, ext)
    }
}

fn contents_case(p: &Placement, seq: &[usize]) -> Vec<Violation> {
    let mut slots = Vec::new();
    for (pos, &s) in seq.iter().enumerate() {
        slots.extend(sym_slots(p, s, pos));
    }
    let Some(img) = place(p, &slots) else { return vec![] };
    let inp = json!({"kind":"contents","placement":p.name,"seq":seq});
    check_dir(&img, &p.vol, p.loc, &p.path, &universe(seq.len()), &inp)
}

pub fn contents_sweep(tier: &str) -> (Vec<Violation>, u64) {
    let ps = placements();
    let maxlen = if tier == "quick" { 5 } else { 6 };
    let k = SYMBOLS.len() as u64;
    let mut viols: Vec<Violation> = Vec::new();
    let mut n = 0u64;
    for p in &ps {
        for len in 1..=maxlen {
            let count = k.pow(len);
            let res: Vec<Vec<Violation>> = par_map(count as usize, |x| {
                let mut y = x as u64;
                let mut seq = Vec::new();
                for _ in 0..len {
                    seq.push((y % k) as usize);
                    y /= k;
                }
                contents_case(p, &seq)
            });
            n += count;
            for r in res {
                for x in r {
                    if !viols.iter().any(|y| y.sig == x.sig) {
                        viols.push(x);
                    }
                }
            }
        }
    }
    (viols, n)
}

pub fn replay_input_c06(inp: &Value) -> i32 {
    if inp["kind"].as_str() == Some("two-volumes") {
        let (v, _) = two_volume_probe();
        for x in &v {
            println!("VIOLATION property=C06 signature={}\n  {}", x.sig, x.detail);
        }
        if v.is_empty() {
            println!("no violation on replay");
        }
        return if v.is_empty() { 0 } else { 1 };
    }
    let ps = placements();
    let Some(p) = ps.iter().find(|p| Some(p.name.as_str()) == inp["placement"].as_str()) else { return 2 };
    let seq: Vec<usize> = inp["seq"].as_array().map(|a| a.iter().map(|x| x.as_u64().unwrap_or(0) as usize).collect()).unwrap_or_default();
    println!("placement {} sequence {:?}", p.name, seq.iter().map(|&s| SYMBOLS[s]).collect::<Vec<_>>());
    let r = contents_case(p, &seq);
    if r.is_empty() {
        println!("no violation on replay");
        0
    } else {
        for x in r {
            println!("VIOLATION property=C06 signature={}\n  {}", x.sig, x.detail);
        }
        1
    }
}

// ---- C06: histories ------------------------------------------------------------------

pub struct ListingProbe;

impl Oracle for ListingProbe {
    fn check(&self, _: &Scenario, _: &[Op], _: &World, _: &Step, _: &mut Vec<Violation>) {}
    fn on_new_state(&self, sc: &Scenario, hist: &[Op], w: &World, out: &mut Vec<Violation>) {
        // (1) through the live VolumeManager: listing and lookups must agree with the model
        let mut w2 = sc.replay(hist);
        let names: [u8; 9] = [0, 1, 2, 5, 7, 8, 9, 10, 13];
        'o: for d in 0..ND as u8 {
            if w2.dirs[d as usize].is_none() {
                continue;
            }
            let mut ops = vec![Op::List { d }];
            for &n in &names {
                ops.push(Op::Find { d, name: n });
            }
            for op in ops {
                let st = w2.apply(op, false);
                for f in &st.findings {
                    out.push(viol("C06", format!("history/{}@{}", f.clause, op.kind()), f.detail.clone(), sc, hist));
                }
                if w2.dead {
                    break 'o;
                }
            }
        }
        // (2) on the medium: every directory, freshly mounted, against the independent reader
        let img = w.disk.image();
        let vcx = &sc.vols[0];
        let fat = vcx.fat(&img, 0);
        let tree = refat::walk(&img, &vcx.vol, &fat);
        let uni: Vec<String> = ["A.TXT", "B.DAT", "OLD.DAT", "SUB", "D", "DEEP", ".", "..", "NOPE.BIN", "P000.BIN"].iter().map(|s| s.to_string()).collect();
        let mut dirs: Vec<(Vec<String>, DirLoc)> = vec![(vec![], refat::root_loc(&vcx.vol))];
        for n in tree.nodes.iter().filter(|n| n.is_dir && vcx.vol.in_range(n.ent.cluster)) {
            dirs.push((n.path.split('/').filter(|s| !s.is_empty()).map(|s| s.to_string()).collect(), DirLoc::Chain(n.ent.cluster)));
        }
        // (a healthy tree has a handful of directories; a medium that exposes garbage as directories has thousands)
        for (path, loc) in dirs.into_iter().take(40) {
            if crate::engine::past_deadline() {
                return;
            }
            let leaked: Vec<&'static str> = path.iter().map(|s| &*Box::leak(s.clone().into_boxed_str())).collect();
            for mut v in check_dir(&img, &vcx.vol, loc, &leaked, &uni, &Value::Null) {
                v.scenario = sc.name.clone();
                v.hist = hist.to_vec();
                v.input = None;
                v.sig = format!("history/{}", v.sig);
                v.detail = format!("directory /{}: {}", path.join("/"), v.detail);
                out.push(v);
            }
        }
    }
}

pub fn c06_def() -> HistProp {
    HistProp {
        id: "C06",
        level: "model_checking",
        scenarios: |t| {
            let quick = t == "quick";
            let mut v: Vec<(String, ScenMaker)> = Vec::new();
            // (V16b / V32b: several blocks per cluster, so a directory's second block lies in its first cluster)
            for (k, sub_free, less) in [(VolKind::V16a, 1usize, 0usize), (VolKind::V32a, 0, 0), (VolKind::V32b, 1, 1), (VolKind::V16b, 0, 1)] {
                let o = MutOpts {
                    kind: k,
                    free: None,
                    root_free_slots: None,
                    sub_free_slots: sub_free,
                    fsinfo: FsInfo::Correct,
                    depth: if quick { 4 - less } else { 5 - less },
                    moving_clock: true,
                    alphabet: Alpha::Mutate,
                    victim: false,
                    front: Front::Raw,
                };
                let name = super::fsprops::mut_name(&o, "listing");
                v.push((name, Box::new(move || mut_scenario(&o, "listing"))));
            }
            v
        },
        oracles: || vec![Box::new(ListingProbe)],
        budget_s: |t| if t == "quick" { 50 } else { 900 },
        max_states: 1_000_000,
        assumptions: &["the start cluster is compared behaviourally (cluster 0 <=> ClusterId::EMPTY / root marker, otherwise reading through the crate yields what the independent reader finds at the on-disk cluster)"],
    }
}

pub fn run_c06(tier: &str) -> i32 {
    let mut rep = Report::new("C06", tier, "model_checking");
    let (v, n) = contents_sweep(tier);
    rep.add_violations(v);
    super::common::run_hist(&c06_def(), tier, &mut rep);
    let (tv, tn) = two_volume_probe();
    rep.add_violations(tv);
    rep.cov("two_volume_handle_orders", json!(tn));
    rep.cov("directory_contents_enumerated", json!(n));
    rep.cov("placements", json!(placements().iter().map(|p| p.name.clone()).collect::<Vec<_>>()));
    rep.cov("slot_alphabet", json!(SYMBOLS));
    rep.cov("contents_max_len", json!(if tier == "quick" { 5 } else { 6 }));
    // count the enumerated directory contents as states of the listing walk as well
    let s = rep.coverage.get("states").and_then(|x| x.as_u64()).unwrap_or(0);
    rep.cov("states", json!(s + n));
    let t = rep.coverage.get("transitions").and_then(|x| x.as_u64()).unwrap_or(0);
    rep.cov("transitions", json!(t + n));
    let tv = rep.coverage.get("traces_validated_against_impl").and_then(|x| x.as_u64()).unwrap_or(0);
    rep.cov("traces_validated_against_impl", json!(tv + n));
    rep.finish()
}

// ---- C07: mode / typing matrix at every state -----------------------------------------

pub struct Matrix;

const C07_NAMES: [u8; 13] = [0, 2, 3, 5, 13, 10, 11, 12, 14, 15, 8, 9, 18];

fn c07_clause(c: &str) -> bool {
    c.starts_with("open_file/") || c.starts_with("write/read-only") || c.starts_with("delete/") || c.starts_with("mkdir/") || c.starts_with("open_dir/") || c == "panic" || c.starts_with("handle/")
}

impl Oracle for Matrix {
    fn check(&self, sc: &Scenario, hist: &[Op], _w: &World, st: &Step, out: &mut Vec<Violation>) {
        judge_c07(sc, hist, st, out);
    }
    fn on_new_state(&self, sc: &Scenario, hist: &[Op], w: &World, out: &mut Vec<Violation>) {
        // every cell of the matrix, one per extra replay
        let mut cells: Vec<Op> = Vec::new();
        // when a table is full the cells are still applied (they must be refused without any effect); the slot
        // named in the operation is then irrelevant
        let free_f = (0..NF).find(|&i| w.files[i].is_none()).or(Some(0));
        let free_d = (0..ND).find(|&i| w.dirs[i].is_none()).or(Some(ND - 1));
        for d in 0..ND as u8 {
            if w.dirs[d as usize].is_none() {
                continue;
            }
            for &name in &C07_NAMES {
                if let Some(f) = free_f {
                    for mode in 0..6u8 {
                        cells.push(Op::Open { d, name, mode, f: f as u8 });
                    }
                }
                cells.push(Op::Delete { d, name });
                cells.push(Op::Mkdir { d, name });
                if let Some(nd) = free_d {
                    cells.push(Op::OpenDir { p: d, name, d: nd as u8 });
                }
            }
        }
        for f in 0..NF as u8 {
            if w.files[f as usize].is_some() {
                cells.push(Op::Write { f, n: 3 });
            }
        }
        for cell in cells {
            if crate::engine::past_deadline() {
                return;
            }
            let mut h2 = hist.to_vec();
            h2.push(cell);
            let (mut w2, st) = sc.replay_observed(&h2);
            judge_c07(sc, &h2, &st, out);
            // differential form of "a refused call changes nothing": H.refused.close-all must leave the same
            // medium as H.close-all (a refused write must not leave the handle dirty, for instance)
            if let (Res::Err(e), false) = (&st.res, w2.dead) {
                if !matches!(e, E::DiskFull | E::NotEnoughSpace | E::DeviceError) {
                    let close_all = |w: &mut World| {
                        for f in 0..NF as u8 {
                            if w.files[f as usize].is_some() && !w.dead {
                                w.apply(Op::Close { f }, false);
                            }
                        }
                    };
                    let mut wa = sc.replay(hist);
                    wa.apply(cell, false);
                    close_all(&mut wa);
                    let mut wb = sc.replay(hist);
                    close_all(&mut wb);
                    if !wa.dead && !wb.dead {
                        let (ia, ib) = (wa.disk.image(), wb.disk.image());
                        let d = ia.diff_blocks(&ib);
                        if !d.is_empty() {
                            out.push(viol(
                                "C07",
                                format!("refusal-changed-medium-after-close@{}/{:?}", cell.kind(), e),
                                format!("{} -> Err({:?}); after closing every file the medium differs in blocks {:?} from the medium without the refused call", cell.show(), e, &d[..d.len().min(6)]),
                                sc,
                                &h2,
                            ));
                        }
                    }
                }
            }
            // documented effect of a successful truncate: after close the medium shows size 0
            if let (Op::Open { f, mode, d, name }, true) = (cell, st.res.is_ok()) {
                if (mode == M_TRUNC || mode == M_CREATE_TRUNC) && !w2.dead && !w2.m.diverged && w2.m.files[f as usize].is_some() {
                    w2.apply(Op::Close { f }, false);
                    let img = w2.disk.image();
                    let vcx = &sc.vols[0];
                    let tree = refat::walk(&img, &vcx.vol, &vcx.fat(&img, 0));
                    if let Some(md) = w2.m.dirs[d as usize].as_ref() {
                        let mut p = String::new();
                        for c in &md.path {
                            p.push('/');
                            p.push_str(&key_str(c));
                        }
                        if let Some(k) = crate::names83::norm83(NAMES[name as usize]) {
                            p.push('/');
                            p.push_str(&key_str(&k));
                            match tree.find(&p) {
                                Some(n) if n.ent.size == 0 => {}
                                other => out.push(viol("C07", "truncate/size-on-medium-after-close".into(), format!("{} then close: medium shows {:?}", cell.show(), other.map(|n| n.ent.size)), sc, &h2)),
                            }
                        }
                    }
                }
            }
        }
    }
}

fn judge_c07(sc: &Scenario, hist: &[Op], st: &Step, out: &mut Vec<Violation>) {
    for f in &st.findings {
        if c07_clause(f.clause) {
            out.push(viol("C07", format!("{}@{}", f.clause, st.op.kind()), f.detail.clone(), sc, hist));
        }
    }
    // a refused call changes nothing on the medium
    if let (Res::Err(e), Some(pre), Some(post)) = (&st.res, &st.pre, &st.post) {
        let refusal = !matches!(e, E::DiskFull | E::NotEnoughSpace | E::DeviceError);
        if refusal {
            let d = pre.diff_blocks(post);
            if !d.is_empty() {
                out.push(viol("C07", format!("refusal-changed-medium@{}/{:?}", st.op.kind(), e), format!("{} -> Err({:?}) but blocks {:?} changed", st.op.show(), e, &d[..d.len().min(6)]), sc, hist));
            }
        }
    }
}

pub fn c07_def() -> HistProp {
    HistProp {
        id: "C07",
        level: "model_checking",
        scenarios: |t| {
            let quick = t == "quick";
            let mut v: Vec<(String, ScenMaker)> = Vec::new();
            for k in [VolKind::V16a, VolKind::V32a] {
                let depth = if quick { 4 } else { 5 };
                let name = format!("matrix/{}-d{}", k.name(), depth);
                let n2 = name.clone();
                v.push((
                    name,
                    Box::new(move || {
                        let img = scen::build(k.geom(), &Default::default());
                        let cfg = crate::engine::make_cfg(img, Front::Raw, false);
                        // two file slots are taken from the start so that the four-slot table fills up within the depth bound
                        let pre = vec![
                            Op::OpenVol { v: 0 },
                            Op::OpenRoot { v: 0, d: 0 },
                            Op::OpenDir { p: 0, name: 5, d: 1 },
                            Op::OpenRoot { v: 0, d: 2 },
                            Op::Open { d: 0, name: 3, mode: M_RO, f: 3 },
                            Op::Open { d: 0, name: 26, mode: M_RO, f: 2 },
                        ];
                        let mut a = Vec::new();
                        for f in 0..2u8 {
                            for (d, name) in [(0u8, 0u8), (0, 2), (1, 0), (2, 0)] {
                                for mode in [M_RO, M_CREATE_APPEND, M_CREATE_TRUNC] {
                                    a.push(Op::Open { d, name, mode, f });
                                }
                            }
                            a.push(Op::Write { f, n: 700 });
                            a.push(Op::Close { f });
                        }
                        a.push(Op::Delete { d: 0, name: 0 });
                        a.push(Op::Delete { d: 0, name: 2 });
                        a.push(Op::Mkdir { d: 0, name: 0 });
                        a.push(Op::Mkdir { d: 0, name: 7 });
                        let mut sc = Scenario::new(&n2, cfg, pre, a, depth);
                        sc.filter = Some(Box::new(|w: &World, op: &Op| match op {
                            Op::Open { f, .. } => (0..NF).find(|&i| w.files[i].is_none()) == Some(*f as usize),
                            _ => true,
                        }));
                        sc
                    }),
                ));
            }
            v
        },
        oracles: || vec![Box::new(Matrix)],
        budget_s: |t| if t == "quick" { 50 } else { 900 },
        max_states: 500_000,
        assumptions: &["when two documented refusals apply at once either error is accepted", "deleting a file with the read-only attribute is outside the property (either outcome accepted)"],
    }
}

pub fn _unused(_: &Geom, _: &[u8]) -> String {
    hex(&[])
}

// ---- C06: "." and sub-directories with two volumes open at once ----------------------------------

/// Both volumes of a two-partition device are open in one manager, in either order, with their root directories opened
/// in either order; then, for each open directory in turn, "." / a sub-directory / ".." are opened through it and every
/// handle obtained must list what the independent reader finds in the directory it designates *on its own volume*.
pub fn two_volume_probe() -> (Vec<Violation>, u64) {
    use embedded_sdmmc::VolumeIdx;
    // the two volumes carry the same standard tree, except for one more file in the root and in SUB of the second
    let base = {
        let g16 = scen::g_v16a();
        let mut g32 = scen::g_v32a();
        g32.part_slot = 1;
        g32.lba_start = g16.part_end() + 17;
        let mut mk = Mk::new(g32);
        scen::populate(&mut mk, &Default::default());
        let root = mk.root();
        mk.file(root, "ONLY32.BIN", 0x20, &[40], 33, 21);
        mk.file(mkfs::Dir(scen::SUB_CHAIN[0]), "ONLY32.DAT", 0x20, &[41], 34, 22);
        Arc::new(scen::combine(vec![scen::build(g16, &Default::default()), mk.finish(FsInfo::Correct)]))
    };
    let vols = [refat::locate(&*base, 0).unwrap(), refat::locate(&*base, 1).unwrap()];
    let img = Image::new(base.clone());
    let names_of = |vi: usize, loc: DirLoc| -> Vec<[u8; 11]> {
        let fat = refat::read_fat(&img, &vols[vi], 0);
        let (slots, _, _) = refat::dir_slots(&img, &vols[vi], &fat, loc);
        refat::live_entries(&slots, vols[vi].fat32).iter().map(|e| e.name).collect()
    };
    let sub_loc = |vi: usize| -> DirLoc {
        let fat = refat::read_fat(&img, &vols[vi], 0);
        let t = refat::walk(&img, &vols[vi], &fat);
        DirLoc::Chain(t.find("/SUB").map(|n| n.ent.cluster).unwrap_or(0))
    };
    let mut viols: Vec<Violation> = Vec::new();
    let mut n = 0u64;
    for vol_order in [[0usize, 1], [1, 0]] {
        for root_order in [[0usize, 1], [1, 0]] {
            for extra_first in [false, true] {
                n += 1;
                let inp = json!({"kind":"two-volumes","vol_order":vol_order,"root_order":root_order,"extra_first":extra_first});
                let img2 = img.clone();
                let r = catch_quiet(|| -> Result<Vec<(String, String)>, String> {
                    let mut bad: Vec<(String, String)> = Vec::new();
                    let disk = SimDisk::new(img2);
                    disk.set_horizon(1_000_000);
                    let vm: VolumeManager<SimDisk, Clock, 8, 4, 2> = VolumeManager::new_with_limits(disk, Clock::new(), 10);
                    let mut vh = [None, None];
                    for &vi in &vol_order {
                        vh[vi] = Some(vm.open_raw_volume(VolumeIdx(vi)).map_err(|e| format!("open_volume {}: {:?}", vi, map_err(&e)))?);
                    }
                    let mut extra = None;
                    if extra_first {
                        // one more directory handle on the first-opened volume shifts the positions in the directory table
                        extra = Some(vm.open_root_dir(vh[vol_order[0]].unwrap()).map_err(|e| format!("extra root: {:?}", map_err(&e)))?);
                    }
                    let mut roots = [None, None];
                    for &vi in &root_order {
                        roots[vi] = Some(vm.open_root_dir(vh[vi].unwrap()).map_err(|e| format!("open_root_dir {}: {:?}", vi, map_err(&e)))?);
                    }
                    let list = |d: RawDirectory| -> Result<Vec<[u8; 11]>, String> {
                        let mut out: Vec<[u8; 11]> = Vec::new();
                        vm.iterate_dir(d, |de| out.push(list_ent(de, None).name)).map_err(|e| format!("iterate_dir: {:?}", map_err(&e)))?;
                        Ok(out)
                    };
                    for vi in 0..2usize {
                        let root = roots[vi].unwrap();
                        let want_root = names_of(vi, refat::root_loc(&vols[vi]));
                        let want_sub = names_of(vi, sub_loc(vi));
                        if list(root)? != want_root {
                            bad.push(("two-volumes/root-lists-another-directory".into(), format!("root of volume {}", vi)));
                        }
                        let dot = vm.open_dir(root, ".").map_err(|e| format!("open_dir(root{}, \".\"): {:?}", vi, map_err(&e)))?;
                        if list(dot)? != want_root {
                            bad.push(("two-volumes/dot-leads-to-another-directory".into(), format!("\".\" opened from the root of volume {} does not list that root", vi)));
                        }
                        let sub = vm.open_dir(root, "SUB").map_err(|e| format!("open_dir(root{}, SUB): {:?}", vi, map_err(&e)))?;
                        if list(sub)? != want_sub {
                            bad.push(("two-volumes/subdir-leads-to-another-directory".into(), format!("SUB opened from the root of volume {} does not list that directory", vi)));
                        }
                        let subdot = vm.open_dir(sub, ".").map_err(|e| format!("open_dir(SUB{}, \".\"): {:?}", vi, map_err(&e)))?;
                        if list(subdot)? != want_sub {
                            bad.push(("two-volumes/dot-leads-to-another-directory".into(), format!("\".\" opened from SUB of volume {} does not list SUB", vi)));
                        }
                        let up = vm.open_dir(sub, "..").map_err(|e| format!("open_dir(SUB{}, \"..\"): {:?}", vi, map_err(&e)))?;
                        if list(up)? != want_root {
                            bad.push(("two-volumes/dotdot-leads-to-another-directory".into(), format!("\"..\" opened from SUB of volume {} does not list the root", vi)));
                        }
                        for h in [dot, sub, subdot, up] {
                            vm.close_dir(h).map_err(|e| format!("close_dir: {:?}", map_err(&e)))?;
                        }
                    }
                    let _ = extra;
                    Ok(bad)
                });
                let found: Vec<(String, String)> = match r {
                    Caught::Ok(Ok(b)) => b,
                    Caught::Ok(Err(e)) => vec![("two-volumes/error".into(), e)],
                    Caught::Panic(m) => vec![("two-volumes/panic".into(), m)],
                };
                for (sig, detail) in found {
                    if !viols.iter().any(|x| x.sig == sig) {
                        viols.push(v6(&sig, format!("volumes opened in order {:?}, roots in order {:?}{}: {}", vol_order, root_order, if extra_first { ", one more root handle opened first" } else { "" }, detail), inp.clone()));
                    }
                }
            }
        }
    }
    (viols, n)
}
