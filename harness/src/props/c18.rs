//! C18 — directory-entry, timestamp and 8.3-name codecs round-trip and match the FAT layout.

use crate::engine::{make_cfg, Report, Violation};
use crate::mkfs;
use crate::names83::{parse83, Ref83};
use crate::refat;
use crate::scen;
use crate::util::{catch_quiet, hex, par_map, par_ranges, Caught};
use crate::world::{ts_tuple, Front, Op, World, M_CREATE};
use embedded_sdmmc::fat::{FatType, OnDiskDirEntry};
use embedded_sdmmc::{BlockIdx, ClusterId, DirEntry, ShortFileName, Timestamp};
use serde_json::{json, Value};

fn v(sig: &str, detail: String, input: Value) -> Violation {
    Violation {
        prop: "C18".into(),
        sig: sig.into(),
        detail,
        scenario: "input".into(),
        hist: vec![],
        input: Some(input),
    }
}

// ---- timestamps --------------------------------------------------------------

fn valid_fat(date: u16, time: u16) -> bool {
    let (_, m, d, h, mi, s) = refat::decode_ts(date, time);
    (1..=12).contains(&m) && (1..=31).contains(&d) && h < 24 && mi < 60 && s < 60
}

fn check_fat_pair(date: u16, time: u16) -> Option<Violation> {
    let r = catch_quiet(|| {
        let t = Timestamp::from_fat(date, time);
        (t, t.serialize_to_fat())
    });
    let inp = json!({"kind":"fat_pair","date":date,"time":time});
    match r {
        Caught::Panic(m) => Some(v("timestamp/from_fat-panics", format!("date {:#06x} time {:#06x}: {}", date, time, m), inp)),
        Caught::Ok((t, enc)) => {
            if !valid_fat(date, time) {
                return None;
            }
            if ts_tuple(&t) != refat::decode_ts(date, time) {
                return Some(v(
                    "timestamp/decode-differs-from-spec",
                    format!("date {:#06x} time {:#06x}: crate {:?}, specification {:?}", date, time, ts_tuple(&t), refat::decode_ts(date, time)),
                    inp,
                ));
            }
            let want = [time as u8, (time >> 8) as u8, date as u8, (date >> 8) as u8];
            if enc != want {
                return Some(v(
                    "timestamp/decode-encode-not-identity",
                    format!("date {:#06x} time {:#06x} re-encodes to {}", date, time, hex(&enc)),
                    inp,
                ));
            }
            None
        }
    }
}

fn check_calendar(y: u32, mo: u32, d: u32, h: u32, mi: u32, s: u32) -> Option<Violation> {
    let inp = json!({"kind":"calendar","t":[y,mo,d,h,mi,s]});
    let r = catch_quiet(|| {
        let t = Timestamp::from_calendar(y as u16, mo as u8, d as u8, h as u8, mi as u8, s as u8);
        t.map(|t| {
            let e = t.serialize_to_fat();
            let date = u16::from_le_bytes([e[2], e[3]]);
            let time = u16::from_le_bytes([e[0], e[1]]);
            (date, time, Timestamp::from_fat(date, time))
        })
    });
    match r {
        Caught::Panic(m) => Some(v("timestamp/calendar-panics", format!("{:?}: {}", (y, mo, d, h, mi, s), m), inp)),
        Caught::Ok(Err(e)) => Some(v("timestamp/calendar-rejected", format!("{:?}: {}", (y, mo, d, h, mi, s), e), inp)),
        Caught::Ok(Ok((date, time, back))) => {
            let want = (y, mo, d, h, mi, s & !1);
            if (date, time) != refat::encode_ts(y, mo, d, h, mi, s) {
                return Some(v(
                    "timestamp/encode-differs-from-spec",
                    format!("{:?} encodes to date {:#06x} time {:#06x}", (y, mo, d, h, mi, s), date, time),
                    inp,
                ));
            }
            if ts_tuple(&back) != want {
                return Some(v(
                    "timestamp/encode-decode-not-identity",
                    format!("{:?} comes back as {:?}", (y, mo, d, h, mi, s), ts_tuple(&back)),
                    inp,
                ));
            }
            None
        }
    }
}

/// Fast paths without per-case panic capture; the caller wraps a whole range in one capture and
/// falls back to the slow, diagnosing functions when a range reports a problem.
#[inline]
fn fast_fat_pair(date: u16, time: u16) -> bool {
    let t = Timestamp::from_fat(date, time);
    if !valid_fat(date, time) {
        return true;
    }
    let enc = t.serialize_to_fat();
    ts_tuple(&t) == refat::decode_ts(date, time) && enc == [time as u8, (time >> 8) as u8, date as u8, (date >> 8) as u8]
}

#[inline]
fn fast_calendar(y: u32, mo: u32, d: u32, h: u32, mi: u32, s: u32) -> bool {
    let Ok(t) = Timestamp::from_calendar(y as u16, mo as u8, d as u8, h as u8, mi as u8, s as u8) else {
        return false;
    };
    let e = t.serialize_to_fat();
    let date = u16::from_le_bytes([e[2], e[3]]);
    let time = u16::from_le_bytes([e[0], e[1]]);
    (date, time) == refat::encode_ts(y, mo, d, h, mi, s) && ts_tuple(&Timestamp::from_fat(date, time)) == (y, mo, d, h, mi, s & !1)
}

// ---- directory entries ----------------------------------------------------------

fn sfn_bytes(n: &ShortFileName) -> [u8; 11] {
    let mut out = [b' '; 11];
    let vl = unsafe { n.clone().to_volume_label() };
    let r = vl.name();
    out[..r.len()].copy_from_slice(r);
    out
}

fn check_entry(name: &str, attr: u8, cluster: u32, size: u32, ct: (u32, u32, u32, u32, u32, u32), mt: (u32, u32, u32, u32, u32, u32), fat32: bool) -> Option<Violation> {
    let inp = json!({"kind":"entry","name":name,"attr":attr,"cluster":cluster,"size":size,"ctime":[ct.0,ct.1,ct.2,ct.3,ct.4,ct.5],"mtime":[mt.0,mt.1,mt.2,mt.3,mt.4,mt.5],"fat32":fat32});
    let r = catch_quiet(|| {
        let sfn = ShortFileName::create_from_str(name).expect("valid name");
        let mk = |t: (u32, u32, u32, u32, u32, u32)| Timestamp::from_calendar(t.0 as u16, t.1 as u8, t.2 as u8, t.3 as u8, t.4 as u8, t.5 as u8).unwrap();
        // attributes have no public constructor: decode them from a slot
        let mut probe = [0u8; 32];
        probe[0] = b'X';
        probe[11] = attr;
        let attributes = OnDiskDirEntry::new(&probe).get_entry(FatType::Fat32, BlockIdx(0), 0).attributes;
        let e = DirEntry {
            name: sfn,
            mtime: mk(mt),
            ctime: mk(ct),
            attributes,
            cluster: ClusterId::EMPTY + cluster,
            size,
            entry_block: BlockIdx(77),
            entry_offset: 96,
        };
        let bytes = e.verif_serialize(fat32);
        let back = OnDiskDirEntry::new(&bytes).get_entry(if fat32 { FatType::Fat32 } else { FatType::Fat16 }, BlockIdx(77), 96);
        (e, bytes, back)
    });
    match r {
        Caught::Panic(m) => Some(v("entry/codec-panics", m, inp)),
        Caught::Ok((e, bytes, back)) => {
            let (cd, ctm) = refat::encode_ts(ct.0, ct.1, ct.2, ct.3, ct.4, ct.5);
            let (wd, wtm) = refat::encode_ts(mt.0, mt.1, mt.2, mt.3, mt.4, mt.5);
            let eff_cluster = if fat32 { cluster } else { cluster & 0xFFFF };
            let want = mkfs::short_entry(&sfn_bytes(&e.name), attr, eff_cluster, size, cd, ctm, wd, wtm);
            if bytes != want {
                return Some(v(
                    "entry/encoded-bytes-differ-from-spec-layout",
                    format!("encoded {} but the specification layout is {}", hex(&bytes), hex(&want)),
                    inp,
                ));
            }
            // expected decode: same entry, FAT16 cluster modulo 2^16, seconds even, cluster 0 + directory => root marker
            let rt = |t: (u32, u32, u32, u32, u32, u32)| (t.0, t.1, t.2, t.3, t.4, t.5 & !1);
            let want_cluster = if eff_cluster == 0 && attr & 0x10 != 0 { ClusterId::ROOT_DIR } else { ClusterId::EMPTY + eff_cluster };
            let ok = back.name == e.name
                && back.attributes == e.attributes
                && back.size == size
                && back.cluster == want_cluster
                && ts_tuple(&back.ctime) == rt(ct)
                && ts_tuple(&back.mtime) == rt(mt)
                && back.entry_block == BlockIdx(77)
                && back.entry_offset == 96;
            if !ok {
                return Some(v("entry/decode-encode-not-identity", format!("{:?} decodes back as {:?}", e, back), inp));
            }
            None
        }
    }
}

// ---- names ---------------------------------------------------------------------------

// (U+00C3 followed by U+00A9 is, as two ISO-8859-1 bytes, also the UTF-8 encoding of U+00E9)
pub const CLASSES: [char; 22] = [
    'a', 'Z', '7', '.', ' ', '"', '*', '+', ',', '/', ':', ';', '<', '=', '>', '?', '\u{0007}', '\u{00E9}', '\u{0100}', '~', '\u{00C3}', '\u{00A9}',
];
pub const MORE_FORBIDDEN: [char; 4] = ['[', '\\', ']', '|'];

fn check_name(s: &str) -> Option<Violation> {
    let inp = json!({"kind":"name","s":s});
    let r = catch_quiet(|| {
        ShortFileName::create_from_str(s).map(|n| {
            let shown = format!("{}", n);
            let again = ShortFileName::create_from_str(&shown).map(|m| sfn_bytes(&m));
            (sfn_bytes(&n), shown, again)
        })
    });
    let want = parse83(s);
    match r {
        Caught::Panic(m) => Some(v("name/parse-panics", format!("{:?}: {}", s, m), inp)),
        Caught::Ok(Err(_)) => match want {
            Ref83::Reject => None,
            _ => Some(v("name/valid-name-rejected", format!("{:?} is a valid 8.3 name but was rejected", s), inp)),
        },
        Caught::Ok(Ok((bytes, shown, again))) => {
            let ok = match &want {
                Ref83::Reject => {
                    let why = if s.chars().filter(|&c| c == '.').count() > 1 { "more-than-one-period" } else { "other" };
                    return Some(v(
                        &format!("name/invalid-name-accepted/{}", why),
                        format!("{:?} is not a valid 8.3 name but parsed as {:?}", s, String::from_utf8_lossy(&bytes)),
                        inp,
                    ));
                }
                Ref83::Name(n) => *n == bytes,
                Ref83::Either(p) => (0..11).all(|i| p[i].contains(&bytes[i])),
            };
            if !ok {
                return Some(v(
                    "name/wrong-bytes",
                    format!("{:?} parsed as {} but the 8.3 rules give {:?}", s, hex(&bytes), want),
                    inp,
                ));
            }
            // dot names are special: display of "." is "." and parses back
            match again {
                Ok(b) if b == bytes => None,
                other => Some(v(
                    "name/display-parse-not-identity",
                    format!("{:?} -> {} -> displayed {:?} -> {:?}", s, hex(&bytes), shown, other.map(|b| hex(&b))),
                    inp,
                )),
            }
        }
    }
}

// ---- end-to-end without the hook ---------------------------------------------------

fn end_to_end(fat32: bool) -> Vec<Violation> {
    let mut out = Vec::new();
    let g = if fat32 { scen::g_v32a() } else { scen::g_v16a() };
    let cfg = make_cfg(scen::build(g, &Default::default()), Front::Raw, true);
    let mut w = World::new(cfg);
    let ops = [
        Op::OpenVol { v: 0 },
        Op::OpenRoot { v: 0, d: 0 },
        Op::Open { d: 0, name: 0, mode: M_CREATE, f: 0 },
        Op::Write { f: 0, n: 600 },
        Op::Close { f: 0 },
    ];
    let mut ticks = Vec::new();
    for o in ops {
        let st = w.apply(o, false);
        ticks.push(w.tick);
        if !st.res.is_ok() {
            out.push(v("entry/end-to-end-failed", format!("{:?} -> {}", o, st.res.class()), json!({"kind":"e2e","fat32":fat32})));
            return out;
        }
    }
    let img = w.disk.image();
    let vol = refat::locate(&img, 0).unwrap();
    let fat = refat::read_fat(&img, &vol, 0);
    let t = refat::walk(&img, &vol, &fat);
    match t.find("/A.TXT") {
        None => out.push(v("entry/end-to-end-missing", "A.TXT not found by the independent reader".into(), json!({"kind":"e2e","fat32":fat32}))),
        Some(n) => {
            let ct = ts_tuple(&crate::simdisk::Clock::at(ticks[2]));
            let mt = ts_tuple(&crate::simdisk::Clock::at(ticks[3]));
            let (cd, ctm) = refat::encode_ts(ct.0, ct.1, ct.2, ct.3, ct.4, ct.5);
            let (wd, wtm) = refat::encode_ts(mt.0, mt.1, mt.2, mt.3, mt.4, mt.5);
            let want = mkfs::short_entry(b"A       TXT", 0x20, n.ent.cluster, 600, cd, ctm, wd, wtm);
            if n.ent.raw != want {
                out.push(v(
                    "entry/end-to-end-bytes",
                    format!("slot on the medium is {} but the specification layout of (A.TXT, archive, cluster {}, 600 bytes, ctime tick {}, mtime tick {}) is {}", hex(&n.ent.raw), n.ent.cluster, ticks[2], ticks[3], hex(&want)),
                    json!({"kind":"e2e","fat32":fat32}),
                ));
            }
        }
    }
    out
}

pub fn replay_input(inp: &Value) -> i32 {
    let g = |k: &str| inp[k].as_u64().unwrap_or(0);
    let tup = |k: &str| {
        let a: Vec<u32> = inp[k].as_array().map(|a| a.iter().map(|x| x.as_u64().unwrap_or(0) as u32).collect()).unwrap_or_default();
        (a[0], a[1], a[2], a[3], a[4], a[5])
    };
    let r: Vec<Violation> = match inp["kind"].as_str() {
        Some("fat_pair") => check_fat_pair(g("date") as u16, g("time") as u16).into_iter().collect(),
        Some("calendar") => {
            let t = tup("t");
            check_calendar(t.0, t.1, t.2, t.3, t.4, t.5).into_iter().collect()
        }
        Some("entry") => check_entry(inp["name"].as_str().unwrap_or("A"), g("attr") as u8, g("cluster") as u32, g("size") as u32, tup("ctime"), tup("mtime"), inp["fat32"].as_bool().unwrap_or(false))
            .into_iter()
            .collect(),
        Some("name") => check_name(inp["s"].as_str().unwrap_or("")).into_iter().collect(),
        Some("e2e") => end_to_end(inp["fat32"].as_bool().unwrap_or(false)),
        _ => return 2,
    };
    if r.is_empty() {
        println!("no violation on replay");
        0
    } else {
        for x in r {
            println!("VIOLATION property=C18 signature={}\n  {}", x.sig, x.detail);
        }
        1
    }
}

pub fn run(tier: &str) -> i32 {
    let mut rep = Report::new("C18", tier, "exploration");
    let mut viols: Vec<Violation> = Vec::new();
    let mut evals = 0u64;

    // all 2^32 (date, time) pairs
    let parts = par_ranges(1 << 32, 256, |a, b| {
        let mut bad: Vec<Violation> = Vec::new();
        let mut valid = 0u64;
        // 2^16 times per date: run each date's sweep under one panic capture
        let mut x = a;
        while x < b {
            let end = ((x | 0xFFFF) + 1).min(b);
            let date = (x >> 16) as u16;
            let fast = catch_quiet(|| {
                let mut ok = true;
                let mut nv = 0u64;
                for y in x..end {
                    ok &= fast_fat_pair(date, y as u16);
                    nv += valid_fat(date, y as u16) as u64;
                }
                (ok, nv)
            });
            match fast {
                Caught::Ok((true, nv)) => valid += nv,
                _ => {
                    for y in x..end {
                        if valid_fat(date, y as u16) {
                            valid += 1;
                        }
                        if let Some(v) = check_fat_pair(date, y as u16) {
                            if !bad.iter().any(|z| z.sig == v.sig) {
                                bad.push(v);
                            }
                        }
                    }
                }
            }
            x = end;
        }
        (bad, valid)
    });
    let mut valid_pairs = 0u64;
    for (b, n) in parts {
        viols.extend(b);
        valid_pairs += n;
    }
    evals += 1 << 32;

    // all calendar timestamps 1980-01-01 .. 2107-12-31 (every day number 1..=31 the constructor accepts)
    let days: Vec<(u32, u32, u32)> = (1980..=2107u32).flat_map(|y| (1..=12u32).flat_map(move |m| (1..=31u32).map(move |d| (y, m, d)))).collect();
    let cal: Vec<(Vec<Violation>, u64)> = par_map(days.len(), |i| {
        let (y, m, d) = days[i];
        let mut bad: Vec<Violation> = Vec::new();
        let n = 24 * 60 * 60u64;
        let fast = catch_quiet(|| {
            let mut ok = true;
            for h in 0..24 {
                for mi in 0..60 {
                    for s in 0..60 {
                        ok &= fast_calendar(y, m, d, h, mi, s);
                    }
                }
            }
            ok
        });
        if !matches!(fast, Caught::Ok(true)) {
            for h in 0..24 {
                for mi in 0..60 {
                    for s in 0..60 {
                        if let Some(v) = check_calendar(y, m, d, h, mi, s) {
                            if !bad.iter().any(|x| x.sig == v.sig) {
                                bad.push(v);
                            }
                        }
                    }
                }
            }
        }
        (bad, n)
    });
    let mut cal_n = 0u64;
    for (b, n) in cal {
        viols.extend(b);
        cal_n += n;
    }
    evals += cal_n;

    // directory entries over field corners, both FAT types
    let names = ["A", "ABCDEFGH.TXT", "X.Y", "\u{00E9}T\u{00C9}.\u{00FF}", "\u{00E5}B.C", "\u{00E5}"];
    let clusters = [0u32, 1, 2, 0xFFFF, 0x10000, 0x0FFF_FFFF];
    let sizes = [0u32, 1, 511, 512, u32::MAX];
    let tss = [(1980, 1, 1, 0, 0, 0), (2107, 12, 31, 23, 59, 59), (2003, 4, 4, 13, 30, 5), (1999, 2, 28, 12, 0, 58)];
    let ent: Vec<(Vec<Violation>, u64)> = par_map(256, |attr| {
        let mut bad: Vec<Violation> = Vec::new();
        let mut n = 0;
        for name in names {
            for &cl in &clusters {
                for &sz in &sizes {
                    for (i, &ct) in tss.iter().enumerate() {
                        let mt = tss[(i + 1) % tss.len()];
                        for fat32 in [false, true] {
                            n += 1;
                            if let Some(v) = check_entry(name, attr as u8, cl, sz, ct, mt, fat32) {
                                if !bad.iter().any(|x| x.sig == v.sig) {
                                    bad.push(v);
                                }
                            }
                        }
                    }
                }
            }
        }
        (bad, n)
    });
    let mut ent_n = 0u64;
    for (b, n) in ent {
        viols.extend(b);
        ent_n += n;
    }
    evals += ent_n;
    viols.extend(end_to_end(false));
    viols.extend(end_to_end(true));
    evals += 2;

    // names: all strings of length <= 4 (thorough 5) over the class alphabet ...
    let alpha: Vec<char> = CLASSES.iter().chain(MORE_FORBIDDEN.iter()).cloned().collect();
    let maxlen = if tier == "quick" { 4 } else { 5 };
    let k = alpha.len() as u64;
    let mut total: u64 = 0;
    let mut name_viols: Vec<Violation> = Vec::new();
    for len in 0..=maxlen {
        let count = k.pow(len as u32);
        let parts = par_ranges(count, 64, |a, b| {
            let mut bad: Vec<Violation> = Vec::new();
            for mut x in a..b {
                let mut s = String::new();
                for _ in 0..len {
                    s.push(alpha[(x % k) as usize]);
                    x /= k;
                }
                if let Some(v) = check_name(&s) {
                    if !bad.iter().any(|y| y.sig == v.sig) {
                        bad.push(v);
                    }
                }
            }
            bad
        });
        for b in parts {
            name_viols.extend(b);
        }
        total += count;
    }
    // ... every pair of ISO-8859-1 characters of the upper half (as a base, as an extension, and in the middle of a
    // name), and every triple over the characters that matter to a UTF-8 decoder (continuation bytes, 2-, 3- and
    // 4-byte lead bytes, invalid bytes): the stored bytes are Latin-1, whatever they look like as UTF-8
    {
        let hi: Vec<char> = (0x80u32..=0xFF).map(|c| char::from_u32(c).unwrap()).collect();
        let parts = par_ranges((hi.len() * hi.len()) as u64, 16, |a, b| {
            let mut bad: Vec<Violation> = Vec::new();
            for x in a..b {
                let (p, q) = (hi[(x as usize) / hi.len()], hi[(x as usize) % hi.len()]);
                for s in [format!("{}{}", p, q), format!("X.{}{}", p, q), format!("A{}{}B.C", p, q)] {
                    if let Some(v) = check_name(&s) {
                        if !bad.iter().any(|y| y.sig == v.sig) {
                            bad.push(v);
                        }
                    }
                }
            }
            bad
        });
        for b in parts {
            name_viols.extend(b);
        }
        total += 3 * (hi.len() * hi.len()) as u64;
        let reps: Vec<char> = [0x80u32, 0x82, 0xA9, 0xAC, 0xBF, 0xC0, 0xC2, 0xC3, 0xDF, 0xE0, 0xE2, 0xEF, 0xF0, 0xF4, 0xF5, 0xFF].iter().map(|&c| char::from_u32(c).unwrap()).collect();
        let r = reps.len();
        for x in 0..r * r * r {
            let s: String = [reps[x / (r * r)], reps[(x / r) % r], reps[x % r]].iter().collect();
            for s in [s.clone(), format!("{}.{}", s, s)] {
                total += 1;
                if let Some(v) = check_name(&s) {
                    if !name_viols.iter().any(|y| y.sig == v.sig) {
                        name_viols.push(v);
                    }
                }
            }
        }
    }
    // ... and all strings up to length 12 over a small base alphabet with one arbitrary-class character inserted anywhere
    let base: Vec<char> = if tier == "quick" { vec!['a', '.'] } else { vec!['a', '1', '.'] };
    let bk = base.len() as u64;
    for len in 0..=12u32 {
        let count = bk.pow(len);
        let parts = par_ranges(count, 64, |a, b| {
            let mut bad: Vec<Violation> = Vec::new();
            let mut n = 0u64;
            for x0 in a..b {
                let mut x = x0;
                let mut chars: Vec<char> = Vec::new();
                for _ in 0..len {
                    chars.push(base[(x % bk) as usize]);
                    x /= bk;
                }
                for pos in 0..=chars.len() {
                    for &c in &alpha {
                        let mut s: String = chars[..pos].iter().collect();
                        s.push(c);
                        s.extend(chars[pos..].iter());
                        n += 1;
                        if let Some(v) = check_name(&s) {
                            if !bad.iter().any(|y| y.sig == v.sig) {
                                bad.push(v);
                            }
                        }
                    }
                }
            }
            (bad, n)
        });
        for (b, n) in parts {
            name_viols.extend(b);
            total += n;
        }
    }
    viols.extend(name_viols);
    evals += total;

    rep.cov("evaluations", json!(evals));
    rep.cov("distinct_nontrivial", json!(valid_pairs + cal_n + ent_n + total));
    rep.cov("rule", json!("all 2^32 (date,time) pairs (non-trivial = the valid ones, counted), every second of 1980-01-01..2107-12-31, directory entries over names x all 256 attribute bytes x cluster/size/timestamp corners x both FAT types through hook H1 plus end-to-end create/write/close, and 8.3 names: all strings up to the stated length over the class alphabet and all base strings up to length 12 with one class character inserted at every position; every case distinct by construction"));
    rep.cov("valid_fat_pairs", json!(valid_pairs));
    rep.cov("calendar_timestamps", json!(cal_n));
    rep.cov("entries", json!(ent_n));
    rep.cov("names", json!(total));
    rep.cov("name_alphabet", json!(alpha.iter().map(|c| format!("U+{:04X}", *c as u32)).collect::<Vec<_>>()));
    rep.cov("samples", json!([
        {"fat_pair": {"date": "0x4d89", "time": "0x9ad1"}},
        {"calendar": [2003, 4, 4, 13, 30, 5]},
        {"entry": {"name": "ABCDEFGH.TXT", "attr": 0x21, "cluster": 0x10000, "size": 511, "fat32": true}},
        {"name": "a.b.c"}, {"name": "ABCDEFGH.txt"}, {"name": "\u{00e9}.x"}
    ]));
    rep.cov("exhaustive", json!(true));
    rep.assumptions.push("reference codecs: refat::{encode_ts,decode_ts}, mkfs::short_entry and names83::parse83, written from the FAT specification".into());
    rep.assumptions.push("for Latin-1 lower-case letters both the unchanged and the upper-cased byte are accepted".into());
    rep.add_violations(viols);
    rep.finish()
}
