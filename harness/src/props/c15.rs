//! C15 — mounting locates every valid FAT16/32 layout and rejects bad ones without panic.

use crate::engine::{make_cfg, Report, Violation};
use crate::mkfs::{FsInfo, Geom, Mk};
use crate::simdisk::{BaseImage, Blk, Clock, Image, Rd, SimDisk};
use crate::util::{catch_quiet, par_map, put16, put32, Caught};
use crate::world::{Front, Op, Res, World, M_RO};
use embedded_sdmmc::{VolumeIdx, VolumeManager};
use serde_json::{json, Value};
use std::sync::Arc;

fn v(sig: &str, detail: String, input: Value) -> Violation {
    Violation {
        prop: "C15".into(),
        sig: sig.into(),
        detail,
        scenario: "input".into(),
        hist: vec![],
        input: Some(input),
    }
}

#[derive(Clone, Debug)]
struct ValidCase {
    fat32: bool,
    spc: u8,
    reserved: u16,
    nfats: u8,
    root_entries: u16,
    total16: bool,
    slot: usize,
    ptype: u8,
    lba: u32,
    clusters: u32,
    tail: u32,
    bootable: bool,
}

fn geom_of(c: &ValidCase) -> Geom {
    let mut g = if c.fat32 { Geom::fat32(c.clusters, c.spc) } else { Geom::fat16(c.clusters, c.spc) };
    g.reserved = c.reserved;
    g.nfats = c.nfats;
    g.root_entries = if c.fat32 { 0 } else { c.root_entries };
    g.total16 = c.total16;
    g.part_slot = c.slot;
    g.part_type = c.ptype;
    g.lba_start = c.lba;
    g.tail = c.tail;
    g.status = if c.bootable { 0x80 } else { 0x00 };
    if c.fat32 {
        if c.reserved < 2 {
            g.reserved = 2;
        }
        // the information sector directly behind the boot sector, or as the last reserved sector
        g.fsinfo_block = if c.slot % 2 == 1 && g.reserved >= 3 { g.reserved - 1 } else { 1 };
    }
    g
}

fn case_json(c: &ValidCase) -> Value {
    json!({"kind":"valid","fat32":c.fat32,"spc":c.spc,"reserved":c.reserved,"nfats":c.nfats,"root_entries":c.root_entries,"total16":c.total16,"slot":c.slot,"ptype":c.ptype,"lba":c.lba,"clusters":c.clusters,"tail":c.tail,"bootable":c.bootable})
}

fn case_from_json(j: &Value) -> ValidCase {
    let g = |k: &str| j[k].as_u64().unwrap_or(0);
    ValidCase {
        fat32: j["fat32"].as_bool().unwrap_or(false),
        spc: g("spc") as u8,
        reserved: g("reserved") as u16,
        nfats: g("nfats") as u8,
        root_entries: g("root_entries") as u16,
        total16: j["total16"].as_bool().unwrap_or(false),
        slot: g("slot") as usize,
        ptype: g("ptype") as u8,
        lba: g("lba") as u32,
        clusters: g("clusters") as u32,
        tail: g("tail") as u32,
        bootable: j["bootable"].as_bool().unwrap_or(false),
    }
}

fn build_valid(c: &ValidCase) -> Option<BaseImage> {
    let g = geom_of(c);
    // consistency: everything must fit 32-bit block numbers; FAT16 FAT size must fit 16 bits
    let total = g.first_data() as u64 + c.clusters as u64 * c.spc as u64 + c.tail as u64;
    if total + c.lba as u64 > u32::MAX as u64 {
        return None;
    }
    if c.total16 && total >= 0x10000 {
        return None;
    }
    if c.tail >= c.spc as u32 && c.tail != 0 {
        return None;
    }
    let mut mk = Mk::new(g.clone());
    let root = mk.root();
    let first = if g.fat32 { 3 } else { 2 };
    let last = g.clusters + 1;
    mk.file(root, "FIRST.DAT", 0x20, &[first], 300, 11);
    mk.file(root, "LAST.DAT", 0x20, &[last], 513.min(g.cluster_bytes()), 12);
    let d = mk.mkdir(root, "SUB", &[first + 2]);
    // a chain that hops to the second-highest cluster and back (its FAT entries hold the highest legal values)
    mk.file(d, "IN.DAT", 0x20, &[first + 3, last - 1, first + 4], 2 * g.cluster_bytes() + 5, 13);
    Some(mk.finish(FsInfo::Correct))
}

fn check_valid(c: &ValidCase) -> Option<Violation> {
    let img = build_valid(c)?;
    let inp = case_json(c);
    let cfg = make_cfg(img, Front::Raw, false);
    if cfg.model0.vols[c.slot].is_none() {
        crate::engine::machinery_fail(&format!("refat cannot read its own mkfs image {:?}", c));
    }
    let mut w = World::new(cfg);
    let v8 = c.slot as u8;
    let ops = [
        Op::OpenVol { v: v8 },
        Op::OpenRoot { v: v8, d: 0 },
        Op::List { d: 0 },
        Op::Open { d: 0, name: 23, mode: M_RO, f: 0 },
        Op::Read { f: 0, n: 1000 },
        Op::Open { d: 0, name: 24, mode: M_RO, f: 1 },
        Op::Read { f: 1, n: 1000 },
        Op::OpenDir { p: 0, name: 5, d: 1 },
        Op::List { d: 1 },
        Op::Open { d: 1, name: 25, mode: M_RO, f: 2 },
        Op::Read { f: 2, n: 70000 },
        Op::Close { f: 2 },
        Op::Close { f: 1 },
        Op::Close { f: 0 },
        Op::CloseDir { d: 1 },
        Op::CloseDir { d: 0 },
        Op::CloseVol { v: v8 },
    ];
    for op in ops {
        let st = w.apply(op, false);
        if let Some(f) = st.findings.first() {
            let stage = if matches!(op, Op::OpenVol { .. }) { "open_volume" } else { "files-not-found-where-the-formatter-put-them" };
            let why = match &st.res {
                Res::Panic(_) => "panic",
                Res::Err(_) => "error",
                _ => "wrong-data",
            };
            return Some(v(&format!("valid-layout/{}/{}", stage, why), format!("{:?}: {} ({:?})", c, f.detail, op), inp));
        }
    }
    None
}

fn check_below_fat16(c: &ValidCase) -> Option<Violation> {
    // 4084 clusters is FAT12: must be refused without panic
    let mut c2 = c.clone();
    c2.clusters = 4084;
    c2.fat32 = false;
    let g = geom_of(&c2);
    let mk = Mk::new(g);
    let img = mk.finish(FsInfo::Correct);
    let r = mount_only(Image::new(Arc::new(img)), c2.slot);
    match r {
        Caught::Panic(m) => Some(v("fat12/panic", m, case_json(&c2))),
        Caught::Ok(Ok(())) => Some(v("fat12/accepted", format!("{:?}: a 4084-cluster (FAT12) volume was mounted", c2), case_json(&c2))),
        Caught::Ok(Err(_)) => None,
    }
}

fn mount_only(img: Image, slot: usize) -> Caught<Result<(), String>> {
    catch_quiet(|| {
        let disk = SimDisk::new(img);
        let vm: VolumeManager<SimDisk, Clock, 4, 4, 1> = VolumeManager::new(disk, Clock::new());
        match vm.open_raw_volume(VolumeIdx(slot)) {
            Ok(h) => {
                let _ = vm.close_volume(h);
                Ok(())
            }
            Err(e) => Err(format!("{:?}", e)),
        }
    })
}

fn valid_grid(tier: &str) -> Vec<ValidCase> {
    let mut out = Vec::new();
    let quick = tier == "quick";
    let spcs: &[u8] = &[1, 2, 4, 8, 16, 32, 64, 128];
    let reserveds: &[u16] = &[1, 2, 32, 0xFFFF];
    // (40 and 100 entries: the last block of the root directory is only partly used)
    let roots: &[u16] = if quick { &[16, 40, 100, 512] } else { &[16, 32, 40, 100, 512] };
    let slots: &[usize] = &[0, 1, 2, 3];
    let ptypes: &[u8] = &[0x04, 0x06, 0x0E, 0x0B, 0x0C];
    let lbas: &[u32] = if quick { &[1, 2048, 0x00F0_0001] } else { &[1, 63, 2048, 0x00F0_0001] };
    for fat32 in [false, true] {
        // (4094 and 65534 clusters: the FAT has exactly as many entries as the volume needs, no slack)
        let counts: &[u32] = if fat32 { &[65525, 65526, 65534, 2_000_000] } else { &[4085, 4086, 4094, 65524] };
        for &clusters in counts {
            if quick && clusters == 2_000_000 {
                // one representative only
                out.push(ValidCase { fat32, spc: 8, reserved: 32, nfats: 2, root_entries: 0, total16: false, slot: 1, ptype: 0x0B, lba: 63, clusters, tail: 7, bootable: true });
                continue;
            }
            for &spc in spcs {
                for &reserved in reserveds {
                    for nfats in [1u8, 2] {
                        for &root_entries in if fat32 { &[0u16][..] } else { roots } {
                            for total16 in [false, true] {
                                for &slot in slots {
                                    for &ptype in ptypes {
                                        for &lba in lbas {
                                            for tail in [0u32, spc as u32 - 1] {
                                                if tail == 0 && spc == 1 && false {
                                                    continue;
                                                }
                                                if !quick || (slot + lba as usize + ptype as usize + nfats as usize + tail as usize) % 2 == 0 {
                                                    out.push(ValidCase { fat32, spc, reserved, nfats, root_entries, total16, slot, ptype, lba, clusters, tail, bootable: (slot + spc as usize + nfats as usize + (lba as usize & 3)) % 2 == 0 });
                                                }
                                            }
                                        }
                                    }
                                }
                            }
                        }
                    }
                }
            }
        }
    }
    out.dedup_by(|a, b| format!("{:?}", a) == format!("{:?}", b));
    out
}

// ---- invalid space -----------------------------------------------------------------

#[derive(Clone, Copy, Debug)]
struct Field {
    name: &'static str,
    sector: u8, // 0 MBR, 1 boot sector, 2 info sector
    off: usize,
    width: u8,
}

const fn f(name: &'static str, sector: u8, off: usize, width: u8) -> Field {
    Field { name, sector, off, width }
}

fn fields(slot: usize) -> Vec<Field> {
    let p = 446 + 16 * slot;
    vec![
        f("mbr.status", 0, p, 1),
        f("mbr.type", 0, p + 4, 1),
        f("mbr.lba_start", 0, p + 8, 4),
        f("mbr.num_blocks", 0, p + 12, 4),
        f("mbr.signature", 0, 510, 2),
        f("bpb.bytes_per_sector", 1, 11, 2),
        f("bpb.sectors_per_cluster", 1, 13, 1),
        f("bpb.reserved", 1, 14, 2),
        f("bpb.num_fats", 1, 16, 1),
        f("bpb.root_entries", 1, 17, 2),
        f("bpb.total16", 1, 19, 2),
        f("bpb.fat_size16", 1, 22, 2),
        f("bpb.hidden", 1, 28, 4),
        f("bpb.total32", 1, 32, 4),
        f("bpb.fat_size32", 1, 36, 4),
        f("bpb.fs_ver", 1, 42, 2),
        f("bpb.root_cluster", 1, 44, 4),
        f("bpb.fs_info", 1, 48, 2),
        f("bpb.signature", 1, 510, 2),
        f("info.lead_sig", 2, 0, 4),
        f("info.struc_sig", 2, 484, 4),
        f("info.free_count", 2, 488, 4),
        f("info.next_free", 2, 492, 4),
        f("info.trail_sig", 2, 508, 4),
    ]
}

fn boundary(width: u8) -> Vec<u32> {
    let max: u64 = (1u64 << (8 * width as u32)) - 1;
    let mut v = vec![0u32, 1, 2, (max / 2) as u32, (max / 2 + 1) as u32, (max - 1) as u32, max as u32];
    v.dedup();
    v
}

struct InvalidBase {
    img: Arc<BaseImage>,
    slot: usize,
    lba: u32,
    info_rel: u32,
    name: &'static str,
}

fn invalid_bases() -> Vec<InvalidBase> {
    let mk = |c: ValidCase, name: &'static str| {
        let g = geom_of(&c);
        InvalidBase {
            img: Arc::new(build_valid(&c).unwrap()),
            slot: c.slot,
            lba: c.lba,
            info_rel: g.fsinfo_block as u32,
            name,
        }
    };
    vec![
        mk(ValidCase { fat32: false, spc: 1, reserved: 1, nfats: 2, root_entries: 16, total16: true, slot: 0, ptype: 0x06, lba: 8, clusters: 4085, tail: 0, bootable: false }, "fat16-small"),
        mk(ValidCase { fat32: false, spc: 64, reserved: 2, nfats: 1, root_entries: 512, total16: false, slot: 2, ptype: 0x0E, lba: 2048, clusters: 65524, tail: 63, bootable: true }, "fat16-large"),
        mk(ValidCase { fat32: true, spc: 1, reserved: 32, nfats: 2, root_entries: 0, total16: false, slot: 1, ptype: 0x0C, lba: 63, clusters: 65525, tail: 0, bootable: false }, "fat32-small"),
        mk(ValidCase { fat32: true, spc: 128, reserved: 32, nfats: 1, root_entries: 0, total16: false, slot: 3, ptype: 0x0B, lba: 0x00F0_0001, clusters: 2_000_000, tail: 0, bootable: true }, "fat32-large"),
    ]
}

fn set_field(blk: &mut Blk, fld: &Field, val: u32) {
    match fld.width {
        1 => blk[fld.off] = val as u8,
        2 => put16(blk, fld.off, val as u16),
        _ => put32(blk, fld.off, val),
    }
}

fn mutate(base: &InvalidBase, muts: &[(Field, u32)], follow: bool) -> Image {
    let mut img = Image::new(base.img.clone());
    // a mutated lba_start/fs_info moves where the crate looks; the sectors there are whatever the image holds
    for (fld, val) in muts {
        let idx = match fld.sector {
            0 => 0,
            1 => base.lba,
            _ => base.lba + base.info_rel,
        };
        let mut b = img.rd(idx);
        set_field(&mut b, fld, *val);
        img.put(idx, &b);
    }
    if follow {
        // the (mutated) boot and information sectors are also present where the mutated partition start and
        // information-sector fields point, so the parser gets past them with extreme positions
        let find = |n: &str| muts.iter().find(|(f, _)| f.name == n).map(|(_, v)| *v);
        let new_lba = find("mbr.lba_start").unwrap_or(base.lba);
        let new_info = find("bpb.fs_info").unwrap_or(base.info_rel);
        let bs = img.rd(base.lba);
        let is = img.rd(base.lba + base.info_rel);
        if new_lba != 0 {
            img.put(new_lba, &bs);
        }
        if let Some(i) = new_lba.checked_add(new_info) {
            if i != 0 && i != new_lba {
                img.put(i, &is);
            }
        }
    }
    img
}

fn moves_sectors(muts: &[(Field, u32)]) -> bool {
    muts.iter().any(|(f, _)| f.name == "mbr.lba_start" || f.name == "bpb.fs_info")
}

fn check_invalid(base: &InvalidBase, muts: &[(Field, u32)], follow: bool) -> Option<Violation> {
    let img = mutate(base, muts, follow);
    match mount_only(img, base.slot) {
        Caught::Panic(m) => {
            let kind = if m.contains("divide by zero") {
                "divide-by-zero"
            } else if m.contains("overflow") {
                "arithmetic-overflow"
            } else {
                "other-panic"
            };
            Some(v(
                &format!("invalid-layout/open_volume-panics/{}", kind),
                format!("base {} with {}{}: {}", base.name, muts.iter().map(|(f, x)| format!("{}={:#x}", f.name, x)).collect::<Vec<_>>().join(", "), if follow { " (boot and information sectors present at the positions these fields designate)" } else { "" }, m),
                json!({"kind":"invalid","base":base.name,"follow":follow,"muts":muts.iter().map(|(f,x)| json!([f.name, x])).collect::<Vec<_>>()}),
            ))
        }
        _ => None,
    }
}

fn check_constant(base: &InvalidBase, role: u8, byte: u8) -> Option<Violation> {
    let mut img = Image::new(base.img.clone());
    let idx = match role {
        0 => 0,
        1 => base.lba,
        _ => base.lba + base.info_rel,
    };
    let mut blk = [byte; 512];
    if role != 0 {
        // keep it reachable: signatures stay so that the parser gets past the first check
        let orig = img.rd(idx);
        blk[510] = orig[510];
        blk[511] = orig[511];
    } else {
        blk[510] = 0x55;
        blk[511] = 0xAA;
    }
    img.put(idx, &blk);
    let mut out = None;
    for slot in 0..4 {
        if let Caught::Panic(m) = mount_only(img.clone(), slot) {
            out = Some(v(
                "invalid-layout/open_volume-panics/constant-sector",
                format!("base {}: sector role {} filled with {:#04x} (signature kept), volume index {}: {}", base.name, role, byte, slot, m),
                json!({"kind":"constant","base":base.name,"role":role,"byte":byte}),
            ));
        }
    }
    // and with the signature bytes overwritten too
    let mut img2 = Image::new(base.img.clone());
    img2.put(idx, &[byte; 512]);
    if let Caught::Panic(m) = mount_only(img2, base.slot) {
        out = Some(v(
            "invalid-layout/open_volume-panics/constant-sector",
            format!("base {}: sector role {} filled entirely with {:#04x}: {}", base.name, role, byte, m),
            json!({"kind":"constant","base":base.name,"role":role,"byte":byte}),
        ));
    }
    out
}

pub fn replay_input(inp: &Value) -> i32 {
    let r: Option<Violation> = match inp["kind"].as_str() {
        Some("valid") => {
            let c = case_from_json(inp);
            if c.clusters == 4084 {
                check_below_fat16(&c)
            } else {
                check_valid(&c)
            }
        }
        Some("invalid") => {
            let bases = invalid_bases();
            let base = bases.iter().find(|b| Some(b.name) == inp["base"].as_str()).unwrap();
            let fl = fields(base.slot);
            let muts: Vec<(Field, u32)> = inp["muts"]
                .as_array()
                .unwrap()
                .iter()
                .map(|m| (*fl.iter().find(|f| Some(f.name) == m[0].as_str()).unwrap(), m[1].as_u64().unwrap() as u32))
                .collect();
            check_invalid(base, &muts, inp["follow"].as_bool().unwrap_or(false))
        }
        Some("reference") => {
            let bad = crate::selftest::crate_on_reference_images();
            for (n, e) in &bad {
                println!("VIOLATION property=C15 signature=reference-images/{}\n  {}", n, e);
            }
            return if bad.is_empty() {
                println!("no violation on replay");
                0
            } else {
                1
            };
        }
        Some("constant") => {
            let bases = invalid_bases();
            let base = bases.iter().find(|b| Some(b.name) == inp["base"].as_str()).unwrap();
            check_constant(base, inp["role"].as_u64().unwrap() as u8, inp["byte"].as_u64().unwrap() as u8)
        }
        _ => return 2,
    };
    match r {
        Some(x) => {
            println!("VIOLATION property=C15 signature={}\n  {}", x.sig, x.detail);
            1
        }
        None => {
            println!("no violation on replay");
            0
        }
    }
}

pub fn run(tier: &str) -> i32 {
    let mut rep = Report::new("C15", tier, "exploration");
    let grid = valid_grid(tier);
    let res: Vec<(Option<Violation>, bool)> = par_map(grid.len(), |i| {
        let c = &grid[i];
        let built = build_valid(c).is_some();
        (if built { check_valid(c) } else { None }, built)
    });
    let mut valid_n = 0u64;
    let mut viols = Vec::new();
    for (x, built) in res {
        if built {
            valid_n += 1;
        }
        if let Some(x) = x {
            if !viols.iter().any(|y: &Violation| y.sig == x.sig) {
                viols.push(x);
            }
        }
    }
    // FAT12 refusal on a few layouts
    let mut below = 0u64;
    for c in grid.iter().filter(|c| !c.fat32 && c.clusters == 4085).step_by(7) {
        below += 1;
        if let Some(x) = check_below_fat16(c) {
            if !viols.iter().any(|y| y.sig == x.sig) {
                viols.push(x);
            }
        }
    }
    // invalid: singles and pairs of boundary values
    let bases = invalid_bases();
    let mut invalid_n = 0u64;
    for base in &bases {
        let fl = fields(base.slot);
        let mut jobs: Vec<Vec<(Field, u32)>> = Vec::new();
        for a in 0..fl.len() {
            for &va in &boundary(fl[a].width) {
                jobs.push(vec![(fl[a], va)]);
            }
        }
        for a in 0..fl.len() {
            for b in (a + 1)..fl.len() {
                let (ba, bb) = (boundary(fl[a].width), boundary(fl[b].width));
                for (ia, &va) in ba.iter().enumerate() {
                    for (ib, &vb) in bb.iter().enumerate() {
                        if tier == "quick" && (ia + ib + a + b) % 3 != 0 {
                            continue;
                        }
                        jobs.push(vec![(fl[a], va), (fl[b], vb)]);
                    }
                }
            }
        }
        let res: Vec<Option<Violation>> = par_map(jobs.len(), |i| check_invalid(base, &jobs[i], false));
        invalid_n += jobs.len() as u64;
        for x in res.into_iter().flatten() {
            if !viols.iter().any(|y| y.sig == x.sig) {
                viols.push(x);
            }
        }
        // the same with the sectors following the mutated position fields
        let moved: Vec<&Vec<(Field, u32)>> = jobs.iter().filter(|j| moves_sectors(j)).collect();
        let res: Vec<Option<Violation>> = par_map(moved.len(), |i| check_invalid(base, moved[i], true));
        invalid_n += moved.len() as u64;
        for x in res.into_iter().flatten() {
            if !viols.iter().any(|y| y.sig == x.sig) {
                viols.push(x);
            }
        }
        let cres: Vec<Option<Violation>> = par_map(3 * 256, |i| check_constant(base, (i / 256) as u8, (i % 256) as u8));
        invalid_n += 3 * 256;
        for x in cres.into_iter().flatten() {
            if !viols.iter().any(|y| y.sig == x.sig) {
                viols.push(x);
            }
        }
    }
    for (name, e) in crate::selftest::crate_on_reference_images() {
        viols.push(v(&format!("reference-images/{}", name), format!("the crate does not read a reference image as the independent reader does: {}", e), json!({"kind":"reference"})));
    }
    rep.add_violations(viols);
    rep.cov("evaluations", json!(valid_n + below + invalid_n));
    rep.cov("distinct_nontrivial", json!(valid_n + invalid_n));
    rep.cov("rule", json!("valid: the product of blocks/cluster x reserved x FAT copies x root entries x 16/32-bit total field x partition slot x type byte x partition offset x cluster-count boundaries x trailing partial cluster (inconsistent combinations skipped), each with files at the first and last cluster that the crate must list and read exactly as the independent formatter wrote them; invalid: every MBR/BPB/FSInfo field involved in validation or arithmetic set to each boundary value, singly and in pairs, from 4 valid base images, plus constant-byte sectors in each sector role; every image is distinct by construction"));
    rep.cov("valid_images", json!(valid_n));
    rep.cov("fat12_refusals", json!(below));
    rep.cov("invalid_images", json!(invalid_n));
    rep.cov("fields", json!(fields(0).iter().map(|f| f.name).collect::<Vec<_>>()));
    rep.cov("samples", json!([case_json(&grid[0]), case_json(&grid[grid.len() / 2]), {"invalid": "bpb.sectors_per_cluster=0"}, {"invalid": "bpb.reserved=0xffff, bpb.fat_size32=0xffffffff"}]));
    rep.cov("exhaustive", json!(true));
    if tier == "quick" {
        rep.cov("exhaustive_note", json!("quick runs a sub-grid of the valid product and one third of the boundary pairs; the thorough tier runs the full product"));
    }
    rep.assumptions.push("the build has overflow checks and debug assertions on, so wrap-around counts as a panic".into());
    rep.assumptions.push("the 'random mutations / random sectors' clause is replaced by exhaustive boundary products; nothing is sampled".into());
    rep.finish()
}
