//! Oracles and helpers shared by the FAT-side property checks.

use crate::engine::{viol, Oracle, Scenario, Violation};
use crate::world::{Op, Step, World, NF};

/// Turns the API-level model/implementation disagreements reported by
/// `World::apply` into violations of one property. `accept` selects the
/// clause tags this property owns.
pub struct ApiOracle {
    pub prop: &'static str,
    pub accept: fn(&str) -> bool,
}

impl Oracle for ApiOracle {
    fn check(&self, sc: &Scenario, hist: &[Op], _w: &World, st: &Step, out: &mut Vec<Violation>) {
        for f in &st.findings {
            if (self.accept)(f.clause) {
                out.push(viol(
                    self.prop,
                    format!("{}@{}", f.clause, st.op.kind()),
                    f.detail.clone(),
                    sc,
                    hist,
                ));
            }
        }
    }
}

/// Read every open file back completely through its own handle (on the given
/// scratch world) and report any disagreement with the model.
pub fn readback_open_files(prop: &'static str, sc: &Scenario, hist: &[Op], w: &mut World, out: &mut Vec<Violation>) {
    for f in 0..NF as u8 {
        if w.dead || w.files[f as usize].is_none() || w.m.files[f as usize].is_none() {
            continue;
        }
        let len = {
            let mf = w.m.files[f as usize].as_ref().unwrap();
            w.m.file(mf).map(|x| x.data.len()).unwrap_or(0) as u32
        };
        for op in [Op::SeekStart { f, o: 0 }, Op::Read { f, n: len + 7 }] {
            let st = w.apply(op, false);
            for fd in &st.findings {
                if !fd.clause.starts_with("impl-only/") {
                    out.push(viol(
                        prop,
                        format!("readback/{}@{}", fd.clause, op.kind()),
                        format!("full read-back of f{} after the history: {}", f, fd.detail),
                        sc,
                        hist,
                    ));
                }
            }
            if w.dead {
                break;
            }
        }
    }
}

pub fn not_impl_only(c: &str) -> bool {
    !c.starts_with("impl-only/")
}

// ---------------------------------------------------------------------------
// Generic driver for history-exploration properties
// ---------------------------------------------------------------------------

use crate::engine::{bfs, Limits, Report};
use std::time::{Duration, Instant};

pub type ScenMaker = Box<dyn Fn() -> Scenario>;

pub struct HistProp {
    pub id: &'static str,
    pub level: &'static str,
    /// lazily built scenarios: (name, maker)
    pub scenarios: fn(&str) -> Vec<(String, ScenMaker)>,
    pub oracles: fn() -> Vec<Box<dyn Oracle>>,
    pub budget_s: fn(&str) -> u64,
    pub max_states: u64,
    pub assumptions: &'static [&'static str],
}

pub fn run_hist(p: &HistProp, tier: &str, rep: &mut Report) {
    let oracles = (p.oracles)();
    let refs: Vec<&dyn Oracle> = oracles.iter().map(|b| b.as_ref()).collect();
    let budget = std::env::var("VERIF_BUDGET_S").ok().and_then(|x| x.parse().ok()).unwrap_or((p.budget_s)(tier));
    let deadline = Some(Instant::now() + Duration::from_secs(budget));
    *crate::engine::GLOBAL_DEADLINE.lock().unwrap() = Some(Instant::now() + Duration::from_secs(budget + 15));
    let mut names = Vec::new();
    let mut scripted_steps = 0u64;
    let mut scripts_run: Vec<String> = Vec::new();
    for (name, mk) in (p.scenarios)(tier) {
        let sc = mk();
        assert_eq!(sc.name, name, "scenario name mismatch");
        crate::watchdog::set_scenario(&sc.name);
        let (st, mut v) = bfs(&sc, &refs, &Limits { max_states: p.max_states, deadline });
        let prelude_failed = v.iter().any(|x| x.prop == "?");
        for x in v.iter_mut().filter(|x| x.prop == "?") {
            x.prop = p.id.to_string();
        }
        rep.add_stats(&sc.name, &st);
        rep.add_violations(v);
        if prelude_failed {
            names.push(name);
            continue;
        }
        // scripted long histories of this scenario
        for (sname, script) in &sc.scripts {
            let mut found: Vec<crate::engine::Violation> = Vec::new();
            let mut done = 0usize;
            // the script is cut where a step is not enabled any more (an earlier step failed)
            let script: &[Op] = {
                let mut w = sc.replay(&[]);
                let mut cut = 0;
                for op in script.iter() {
                    if w.dead || !w.enabled(op) {
                        break;
                    }
                    w.apply(*op, false);
                    cut += 1;
                }
                &script[..cut]
            };
            for k in 1..=script.len() {
                let (w, st) = sc.replay_observed(&script[..k]);
                done = k;
                for o in &refs {
                    o.check(&sc, &script[..k], &w, &st, &mut found);
                    if !w.dead && !w.m.diverged {
                        o.on_new_state(&sc, &script[..k], &w, &mut found);
                    }
                }
                if w.dead || w.m.diverged {
                    break;
                }
            }
            scripted_steps += done as u64;
            scripts_run.push(format!("{}:{} ({} steps)", sc.name, sname, done));
            rep.add_violations(found);
        }
        names.push(name);
    }
    if !scripts_run.is_empty() {
        rep.cov("scripted_histories", serde_json::json!(scripts_run));
        rep.cov("scripted_steps_judged", serde_json::json!(scripted_steps));
    }
    rep.cov("scenario_count", serde_json::json!(names.len()));
    for a in p.assumptions {
        rep.assumptions.push(a.to_string());
    }
}

/// Re-execute a recorded history without the explorer, judging every step.
pub fn replay_hist(p: &HistProp, scenario: &str, hist: &[Op]) -> i32 {
    let mut found = None;
    for tier in ["quick", "thorough"] {
        for (name, mk) in (p.scenarios)(tier) {
            if name == scenario {
                found = Some(mk());
                break;
            }
        }
        if found.is_some() {
            break;
        }
    }
    let Some(sc) = found else {
        eprintln!("replay: scenario {:?} not known to {}", scenario, p.id);
        return 2;
    };
    let oracles = (p.oracles)();
    let mut any = false;
    println!("replaying {} operations of scenario {} on the real code", hist.len(), scenario);
    if let Some((sig, detail)) = crate::engine::prelude_failure(&sc) {
        println!("VIOLATION property={} signature={}", p.id, sig);
        println!("      {}", detail);
        return 1;
    }
    for k in 1..=hist.len() {
        let (w, st) = sc.replay_observed(&hist[..k]);
        println!("  {:>2}. {:<55} -> {}", k, st.op.show(), st.res.class());
        let mut v = Vec::new();
        for o in &oracles {
            o.check(&sc, &hist[..k], &w, &st, &mut v);
            if !w.dead && !w.m.diverged {
                o.on_new_state(&sc, &hist[..k], &w, &mut v);
            }
        }
        for x in v {
            any = true;
            println!("VIOLATION property={} signature={}", x.prop, x.sig);
            println!("      {}", x.detail);
        }
        if w.dead {
            break;
        }
    }
    if any {
        1
    } else {
        println!("no violation on replay");
        0
    }
}
