//! C12, C13, C14 — the SD/MMC-over-SPI block driver against a byte-level card.

use crate::engine::{Report, Violation};
use crate::simcard::*;
use crate::spimon::Monitor;
use crate::util::{catch_quiet, par_map, Caught};
use embedded_sdmmc::sdcard::{AcquireOpts, CardType, Error as SdErr};
use embedded_sdmmc::{Block, BlockDevice, BlockIdx, SdCard};
use serde_json::{json, Value};
use std::cell::RefCell;
use std::collections::BTreeMap;
use std::rc::Rc;

#[derive(Clone, Copy, Debug, PartialEq, Eq, Hash)]
pub enum SdOp {
    Read(u32, u32),
    Write(u32, u32),
    NumBlocks,
    NumBytes,
    CardType,
    MarkUninit,
    /// erase_single_block_enabled(): one more reader of the card-specific-data register
    EraseEnabled,
    /// the card is taken out and one of another kind and capacity put in: capacity query (old card), exchange +
    /// mark_card_uninit, then card type, capacity, register flag and a read on the new card
    Swap,
    /// (internal) the exchange itself
    SwapRaw,
}

#[derive(Clone, Debug, PartialEq)]
pub enum SdRes {
    Blocks(Vec<[u8; 512]>),
    Ok,
    Num(u64),
    Type(Option<u8>),
    Err(String),
    Panic(String),
}

impl SdRes {
    fn class(&self) -> String {
        match self {
            SdRes::Blocks(b) => format!("Ok({} blocks)", b.len()),
            SdRes::Ok => "Ok".into(),
            SdRes::Num(n) => format!("Ok({})", n),
            SdRes::Type(t) => format!("{:?}", t),
            SdRes::Err(e) => format!("Err({})", e),
            SdRes::Panic(m) => format!("Panic({})", m),
        }
    }
    fn is_err(&self) -> bool {
        matches!(self, SdRes::Err(_))
    }
}

pub fn default_csd(kind: Kind) -> [u8; 16] {
    match kind {
        // 10 * 2^(3+2) * 512 B = 320 blocks; a version-2 standard-capacity card carries a v1-layout register too
        Kind::V1Sdsc | Kind::V2Sdsc => csd_v1(9, 3, 9),
        Kind::V2Sdhc => csd_v2(0), // 1024 blocks
    }
}

fn kind_code(k: Kind) -> u8 {
    match k {
        Kind::V1Sdsc => 1,
        Kind::V2Sdsc => 2,
        Kind::V2Sdhc => 3,
    }
}

fn type_code(t: Option<CardType>) -> Option<u8> {
    t.map(|t| match t {
        CardType::SD1 => 1,
        CardType::SD2 => 2,
        CardType::SDHC => 3,
    })
}

pub fn payload(op_index: usize, blk: u32, i: usize) -> u8 {
    (crate::util::mix64(((op_index as u64) << 48) ^ ((blk as u64) << 12) ^ i as u64) >> 11) as u8
}

pub struct Conv {
    pub card: Rc<RefCell<Card>>,
    pub sd: SdCard<SimSpi, NoDelay>,
}

thread_local! {
    /// `AcquireOpts::acquire_retries` of the drivers built by `conv` on this thread (the crate's default is 50)
    static ACQUIRE_RETRIES: std::cell::Cell<u32> = const { std::cell::Cell::new(50) };
}

/// Run `f` with drivers configured for `n` identification retries.
pub fn with_retries<T>(n: u32, f: impl FnOnce() -> T) -> T {
    let old = ACQUIRE_RETRIES.with(|r| r.replace(n));
    let out = f();
    ACQUIRE_RETRIES.with(|r| r.set(old));
    out
}

pub fn conv(card: Card, crc: bool) -> Conv {
    let card = Rc::new(RefCell::new(card));
    let retries = ACQUIRE_RETRIES.with(|r| r.get());
    let sd = SdCard::new_with_options(SimSpi(card.clone()), NoDelay, AcquireOpts { use_crc: crc, acquire_retries: retries });
    Conv { card, sd }
}

pub fn exec(c: &Conv, op: SdOp, op_index: usize) -> SdRes {
    c.card.borrow_mut().miso_log.clear();
    let sd = &c.sd;
    let r = catch_quiet(|| match op {
        SdOp::Read(b, n) => {
            // the destination buffers hold hostile old contents: repeated stop-transmission frames (4C 00 00 00 00 61).
            // What the caller's buffer held before must not matter.
            let mut blocks = vec![Block::new(); n as usize];
            for b in blocks.iter_mut() {
                for (i, x) in b.contents.iter_mut().enumerate() {
                    *x = [0x4C, 0x00, 0x00, 0x00, 0x00, 0x61, 0xFF, 0xFF][i % 8];
                }
            }
            match sd.read(&mut blocks, BlockIdx(b)) {
                Ok(()) => SdRes::Blocks(blocks.iter().map(|x| x.contents).collect()),
                Err(e) => SdRes::Err(format!("{:?}", e)),
            }
        }
        SdOp::Write(b, n) => {
            let blocks: Vec<Block> = (0..n)
                .map(|k| {
                    let mut x = Block::new();
                    for i in 0..512 {
                        x.contents[i] = payload(op_index, b + k, i);
                    }
                    x
                })
                .collect();
            match sd.write(&blocks, BlockIdx(b)) {
                Ok(()) => SdRes::Ok,
                Err(e) => SdRes::Err(format!("{:?}", e)),
            }
        }
        SdOp::NumBlocks => match sd.num_blocks() {
            Ok(n) => SdRes::Num(n.0 as u64),
            Err(e) => SdRes::Err(format!("{:?}", e)),
        },
        SdOp::NumBytes => match sd.num_bytes() {
            Ok(n) => SdRes::Num(n),
            Err(e) => SdRes::Err(format!("{:?}", e)),
        },
        SdOp::CardType => SdRes::Type(type_code(sd.get_card_type())),
        SdOp::Swap | SdOp::SwapRaw => SdRes::Ok,
        SdOp::EraseEnabled => match sd.erase_single_block_enabled() {
            Ok(b) => SdRes::Num(b as u64),
            Err(e) => SdRes::Err(format!("{:?}", e)),
        },
        SdOp::MarkUninit => {
            sd.mark_card_uninit();
            SdRes::Ok
        }
    });
    match r {
        Caught::Ok(r) => r,
        Caught::Panic(m) => SdRes::Panic(m),
    }
}

static SD_SKIPPED: std::sync::atomic::AtomicU64 = std::sync::atomic::AtomicU64::new(0);
static SD_DEADLINE: std::sync::Mutex<Option<std::time::Instant>> = std::sync::Mutex::new(None);

/// Wall-clock budget of one SD check (all its sweeps together); `VERIF_BUDGET_S` overrides it.
fn sd_set_deadline(tier: &str) {
    let secs: u64 = std::env::var("VERIF_BUDGET_S").ok().and_then(|x| x.parse().ok()).unwrap_or(if tier == "quick" { 50 } else { 1500 });
    *SD_DEADLINE.lock().unwrap() = Some(std::time::Instant::now() + std::time::Duration::from_secs(secs));
}

fn sd_deadline() -> std::time::Instant {
    SD_DEADLINE.lock().unwrap().unwrap_or_else(|| std::time::Instant::now() + std::time::Duration::from_secs(86_400))
}

/// `par_map` under the check's deadline; jobs not started in time are counted and reported as a cap.
fn sd_map<T: Send + Default, F: Fn(usize) -> T + Sync>(n: usize, f: F) -> Vec<T> {
    crate::util::par_map_until(n, sd_deadline(), f)
        .into_iter()
        .map(|x| {
            x.unwrap_or_else(|| {
                SD_SKIPPED.fetch_add(1, std::sync::atomic::Ordering::Relaxed);
                T::default()
            })
        })
        .collect()
}

fn sd_cap_note(rep: &mut Report) {
    let k = SD_SKIPPED.load(std::sync::atomic::Ordering::Relaxed);
    if crate::simcard::DEADLINE_HIT.load(std::sync::atomic::Ordering::Relaxed) && k == 0 {
        rep.cov("capped", json!("wall-clock budget reached inside a timing exploration"));
        rep.cov("exhaustive", json!(false));
    }
    if k > 0 {
        rep.cov("capped", json!(format!("wall-clock budget reached: {} sweep jobs were not run", k)));
        rep.cov("exhaustive", json!(false));
    }
}

fn v(prop: &str, sig: String, mut detail: String, input: Value) -> Violation {
    // thousands of sweep jobs may each return a violation before they are de-duplicated: keep them small
    if detail.len() > 1500 {
        let mut cut = 1500;
        while !detail.is_char_boundary(cut) {
            cut -= 1;
        }
        detail.truncate(cut);
        detail.push_str(" …");
    }
    Violation { prop: prop.into(), sig, detail, scenario: "sd".into(), hist: vec![], input: Some(input) }
}

fn ops_json(ops: &[SdOp]) -> Value {
    json!(ops.iter().map(|o| format!("{:?}", o)).collect::<Vec<_>>())
}

fn op_from_str(s: &str) -> Option<SdOp> {
    let (name, rest) = s.split_once('(').unwrap_or((s, ""));
    let a: Vec<u32> = rest.trim_end_matches(')').split(',').filter_map(|x| x.trim().parse().ok()).collect();
    Some(match name {
        "Read" => SdOp::Read(a[0], a[1]),
        "Write" => SdOp::Write(a[0], a[1]),
        "NumBlocks" => SdOp::NumBlocks,
        "NumBytes" => SdOp::NumBytes,
        "CardType" => SdOp::CardType,
        "EraseEnabled" => SdOp::EraseEnabled,
        "Swap" => SdOp::Swap,
        "MarkUninit" => SdOp::MarkUninit,
        _ => return None,
    })
}

fn kind_from(n: u64) -> Kind {
    match n {
        1 => Kind::V1Sdsc,
        2 => Kind::V2Sdsc,
        _ => Kind::V2Sdhc,
    }
}

// ---------------------------------------------------------------------------
// C12 + C14: one fault-free conversation under one timing choice sequence
// ---------------------------------------------------------------------------

pub struct RunOut {
    pub c12: Vec<(String, String)>,
    pub c14: Vec<(String, String)>,
    pub exchanges: u64,
    pub commands: u64,
    pub outcomes: Vec<String>,
}

pub fn run_conversation(kind: Kind, crc: bool, csd: [u8; 16], ops: &[SdOp], ch: Chooser) -> (Chooser, RunOut) {
    run_conversation_f(kind, crc, csd, ops, ch, Fault::None)
}

/// The same on a card with a (legal) peculiarity, e.g. another spelling of the "data accepted" token.
pub fn run_conversation_f(kind: Kind, crc: bool, csd: [u8; 16], ops: &[SdOp], ch: Chooser, fault: Fault) -> (Chooser, RunOut) {
    let mut card = Card::new(kind, csd);
    card.fault = fault;
    card.chooser = ch;
    card.monitor = Some(Box::new(Monitor::new()));
    let c = conv(card, crc);
    let mut model: BTreeMap<u32, [u8; 512]> = BTreeMap::new();
    let mut cap = c.card.borrow().capacity_blocks;
    let mut out = RunOut { c12: vec![], c14: vec![], exchanges: 0, commands: 0, outcomes: vec![] };
    let (mut kind, mut csd) = (kind, csd);
    let mut seq: Vec<SdOp> = Vec::new();
    for op in ops {
        if *op == SdOp::Swap {
            seq.extend([SdOp::NumBlocks, SdOp::SwapRaw, SdOp::CardType, SdOp::NumBlocks, SdOp::NumBytes, SdOp::EraseEnabled, SdOp::Read(1, 1)]);
        } else {
            seq.push(*op);
        }
    }
    let ops = &seq[..];
    for (i, op) in ops.iter().enumerate() {
        if *op == SdOp::SwapRaw {
            // another card: next kind, a register that differs in capacity and in ERASE_BLK_EN from the default one
            let k2 = match kind {
                Kind::V1Sdsc => Kind::V2Sdhc,
                Kind::V2Sdhc => Kind::V2Sdsc,
                Kind::V2Sdsc => Kind::V1Sdsc,
            };
            let mut csd2 = match k2 {
                Kind::V2Sdhc => csd_v2(3),
                _ => csd_v1(20, 3, 9),
            };
            csd2[10] &= !0x40;
            {
                let mut cb = c.card.borrow_mut();
                let mut nc = Card::new(k2, csd2);
                nc.chooser = cb.chooser.clone();
                nc.monitor = cb.monitor.take();
                nc.exchanges = cb.exchanges;
                nc.txns = cb.txns;
                nc.horizon = cb.horizon;
                *cb = nc;
            }
            c.sd.mark_card_uninit();
            kind = k2;
            csd = csd2;
            cap = c.card.borrow().capacity_blocks;
            model.clear();
            out.outcomes.push("Swap: Ok".to_string());
            continue;
        }
        let r = exec(&c, *op, i);
        out.outcomes.push(format!("{:?}: {}", op, r.class()));
        let in_range = match op {
            SdOp::Read(b, n) | SdOp::Write(b, n) => (*b as u64 + *n as u64) <= cap as u64,
            _ => true,
        };
        match (op, &r) {
            (_, SdRes::Panic(m)) => out.c12.push((format!("panic@{}", opname(op)), format!("{:?}: {}", op, m))),
            (SdOp::Read(b, n), SdRes::Blocks(got)) if in_range => {
                for k in 0..*n {
                    let want = model.get(&(b + k)).cloned().unwrap_or_else(|| mem_default(b + k));
                    if got[k as usize] != want {
                        out.c12.push((
                            format!("read/wrong-data/{}", if *n == 1 { "single" } else { "multi" }),
                            format!("{:?}: block {} of the result is not what the card stores at block {}", op, k, b + k),
                        ));
                        break;
                    }
                }
            }
            (SdOp::Write(b, n), SdRes::Ok) if in_range => {
                for k in 0..*n {
                    let mut d = [0u8; 512];
                    for (j, x) in d.iter_mut().enumerate() {
                        *x = payload(i, b + k, j);
                    }
                    model.insert(b + k, d);
                }
                let mem = c.card.borrow().mem.clone();
                if mem != model {
                    let stray: Vec<u32> = mem.keys().filter(|k| model.get(k) != mem.get(k)).cloned().collect();
                    let missing: Vec<u32> = model.keys().filter(|k| mem.get(k) != model.get(k)).cloned().collect();
                    out.c12.push((
                        format!("write/card-memory-differs/{}", if *n == 1 { "single" } else { "multi" }),
                        format!("{:?}: card memory differs from the model: blocks changed that should not {:?}, blocks not holding the written data {:?}", op, stray, missing),
                    ));
                    model = mem;
                }
            }
            (SdOp::Read(..), SdRes::Err(e)) | (SdOp::Write(..), SdRes::Err(e)) if in_range => {
                out.c12.push((format!("{}/unexpected-error", opname(op)), format!("{:?} -> Err({}) on a healthy card", op, e)));
            }
            (SdOp::Read(..), SdRes::Blocks(_)) if !in_range => {
                out.c12.push(("read/beyond-capacity-succeeds".into(), format!("{:?} on a card with {} blocks returned Ok", op, cap)));
            }
            (SdOp::NumBlocks, r) => {
                let want = spec_capacity_blocks(&csd);
                if *r != SdRes::Num(want) && want <= u32::MAX as u64 {
                    out.c12.push((format!("capacity/num_blocks-wrong/{:?}", kind), format!("num_blocks() = {} but the register (CSD_STRUCTURE {}) encodes {} blocks", r.class(), csd[0] >> 6, want)));
                }
            }
            (SdOp::NumBytes, r) => {
                let want = spec_capacity_blocks(&csd) * 512;
                if *r != SdRes::Num(want) {
                    out.c12.push((format!("capacity/num_bytes-wrong/{:?}", kind), format!("num_bytes() = {} but the register (CSD_STRUCTURE {}) encodes {} bytes", r.class(), csd[0] >> 6, want)));
                }
            }
            (SdOp::EraseEnabled, r) => {
                // ERASE_BLK_EN is bit 46 of the register in both layouts
                let want = (csd[10] >> 6 & 1) as u64;
                if *r != SdRes::Num(want) {
                    out.c12.push((format!("register/erase_single_block_enabled-wrong/{:?}", kind), format!("erase_single_block_enabled() = {} but the register holds ERASE_BLK_EN = {}", r.class(), want)));
                }
            }
            (SdOp::CardType, r) => {
                if *r != SdRes::Type(Some(kind_code(kind))) {
                    out.c12.push((format!("card-type-wrong/{:?}", kind), format!("get_card_type() = {} for a {:?} card", r.class(), kind)));
                }
            }
            _ => {}
        }
    }
    {
        let mut cb = c.card.borrow_mut();
        let mon = cb.monitor.as_mut().unwrap();
        mon.finish();
        out.c14 = mon.violations.clone();
        out.commands = mon.commands;
    }
    let card = c.card.borrow();
    out.exchanges = card.exchanges;
    let ch = card.chooser.clone();
    drop(card);
    (ch, out)
}

fn opname(op: &SdOp) -> &'static str {
    match op {
        SdOp::Read(_, 1) => "read",
        SdOp::Read(..) => "read-multi",
        SdOp::Write(_, 1) => "write",
        SdOp::Write(..) => "write-multi",
        SdOp::NumBlocks => "num_blocks",
        SdOp::NumBytes => "num_bytes",
        SdOp::CardType => "get_card_type",
        SdOp::EraseEnabled => "erase_single_block_enabled",
        SdOp::Swap | SdOp::SwapRaw => "card-exchange",
        SdOp::MarkUninit => "mark_card_uninit",
    }
}

fn op_alphabet(kind: Kind, tier: &str, with_beyond: bool) -> Vec<SdOp> {
    let cap = spec_capacity_blocks(&default_csd(kind)) as u32;
    let last = cap - 1;
    let mut a = Vec::new();
    let blocks: Vec<u32> = if tier == "quick" { vec![0, 1, 255, 256, last] } else { vec![0, 1, 2, 255, 256, last] };
    for &b in &blocks {
        a.push(SdOp::Read(b, 1));
        a.push(SdOp::Write(b, 1));
    }
    for &b in &[0u32, 255, last - 2] {
        for n in [2u32, 3] {
            a.push(SdOp::Read(b, n));
            a.push(SdOp::Write(b, n));
        }
    }
    a.push(SdOp::NumBlocks);
    a.push(SdOp::NumBytes);
    a.push(SdOp::CardType);
    a.push(SdOp::EraseEnabled);
    a.push(SdOp::Swap);
    a.push(SdOp::MarkUninit);
    if with_beyond {
        // calls the card refuses without any fault: reads and writes beyond its capacity
        a.push(SdOp::Read(cap, 1));
        a.push(SdOp::Read(last, 2));
        a.push(SdOp::Write(cap, 1));
        a.push(SdOp::Write(cap + 7, 2));
    }
    a
}

struct Agg {
    runs: u64,
    conversations: u64,
    exchanges: u64,
    commands: u64,
    viols: Vec<Violation>,
    outcomes: BTreeMap<String, u64>,
    max_points: usize,
}

fn explore_sd(prop: &str, tier: &str, with_beyond: bool) -> Agg {
    let kinds = [Kind::V1Sdsc, Kind::V2Sdsc, Kind::V2Sdhc];
    let mut jobs: Vec<(Kind, bool, Vec<SdOp>, usize)> = Vec::new();
    for &k in &kinds {
        let alpha = op_alphabet(k, tier, with_beyond);
        for crc in [true, false] {
            // depth 1 and 2 with the larger deviation bound, depth 3 (thorough) with bound 1
            let b12 = if tier == "quick" { 1 } else { 2 };
            for a in &alpha {
                jobs.push((k, crc, vec![*a], 2));
                for b in &alpha {
                    jobs.push((k, crc, vec![*a, *b], b12));
                    if tier == "thorough" {
                        for c in &alpha {
                            if matches!(c, SdOp::Read(_, 1) | SdOp::Write(_, 1)) && !matches!(c, SdOp::Read(0, 1) | SdOp::Write(255, 1)) {
                                continue; // depth 3 closes with a reduced set of single-block calls
                            }
                            jobs.push((k, crc, vec![*a, *b, *c], 1));
                        }
                    }
                }
            }
        }
    }
    let results: Vec<(u64, u64, u64, Vec<Violation>, BTreeMap<String, u64>, usize)> = sd_map(jobs.len(), |j| {
        let (kind, crc, ops, bound) = &jobs[j];
        let csd = default_csd(*kind);
        let mut viols: Vec<Violation> = Vec::new();
        let mut ex = 0u64;
        let mut cmds = 0u64;
        let mut outcomes: BTreeMap<String, u64> = BTreeMap::new();
        let mut maxp = 0;
        let runs = explore_choices(
            *bound,
            Some(sd_deadline()),
            |ch| run_conversation(*kind, *crc, csd, ops, ch),
            |ch, out| {
                ex += out.exchanges;
                cmds += out.commands;
                maxp = maxp.max(ch.taken.len());
                for o in &out.outcomes {
                    let key = o.split(": ").nth(1).unwrap_or("").to_string();
                    let name = o.split('(').next().unwrap_or("").to_string();
                    *outcomes.entry(format!("{}: {}", name, key)).or_insert(0) += 1;
                }
                let list = if prop == "C12" { &out.c12 } else { &out.c14 };
                let clean = list.is_empty();
                for (sig, detail) in list {
                    if !viols.iter().any(|x| &x.sig == sig) {
                        let choices: Vec<u8> = ch.taken.iter().map(|t| t.2).collect();
                        viols.push(v(
                            prop,
                            sig.clone(),
                            format!("{:?} card, CRC {}, calls {:?}, timing choices {:?}: {}", kind, if *crc { "on" } else { "off" }, ops, ch.taken.iter().filter(|t| t.2 != 0).map(|t| format!("{}#{}", t.0, t.2)).collect::<Vec<_>>(), detail),
                            json!({"kind": kind_code(*kind), "crc": crc, "ops": ops_json(ops), "choices": choices, "prop": prop}),
                        ));
                    }
                }
                // a run that is itself a counterexample is not deviated from any further
                clean
            },
        );
        (runs, ex, cmds, viols, outcomes, maxp)
    });
    let mut agg = Agg { runs: 0, conversations: jobs.len() as u64, exchanges: 0, commands: 0, viols: vec![], outcomes: BTreeMap::new(), max_points: 0 };
    for (runs, ex, cmds, viols, outcomes, maxp) in results {
        agg.runs += runs;
        agg.exchanges += ex;
        agg.commands += cmds;
        agg.max_points = agg.max_points.max(maxp);
        for x in viols {
            if !agg.viols.iter().any(|y| y.sig == x.sig) {
                agg.viols.push(x);
            }
        }
        for (k, n) in outcomes {
            *agg.outcomes.entry(k).or_insert(0) += n;
        }
    }
    agg
}

/// The upper three bits of the data-response token are "don't care": every token with xxx0_0101 means "accepted".
fn accept_token_sweep() -> (Vec<Violation>, u64) {
    let mut out: Vec<Violation> = Vec::new();
    let mut n = 0u64;
    for kind in [Kind::V1Sdsc, Kind::V2Sdsc, Kind::V2Sdhc] {
        for crc in [true, false] {
            for nth in 0..4u32 {
                for hi in 0..8u8 {
                    let token = (hi << 5) | 0x05;
                    n += 1;
                    let ops = [SdOp::Write(5, 1), SdOp::Write(8, 3), SdOp::Read(5, 1), SdOp::Read(8, 3)];
                    let (_, r) = run_conversation_f(kind, crc, default_csd(kind), &ops, Chooser::default(), Fault::DataResponse { nth, token });
                    for (sig, detail) in r.c12 {
                        let sig = format!("accepted-token-spelling/{}", sig);
                        if !out.iter().any(|x| x.sig == sig) {
                            out.push(v("C12", sig, format!("{:?} card, CRC {}, data block {} answered with token {:#04x} (= accepted): {}", kind, if crc { "on" } else { "off" }, nth, token, detail), json!({"prop":"C12","kind":kind_code(kind),"crc":crc,"accept_token":token,"nth":nth})));
                        }
                    }
                }
            }
        }
    }
    (out, n)
}

/// Every CSD register: the reported capacity must follow the register's own CSD_STRUCTURE.
fn csd_sweep(tier: &str) -> (Vec<Violation>, u64) {
    let mut jobs: Vec<(Kind, [u8; 16])> = Vec::new();
    for rbl in 9..=11u32 {
        for mult in 0..8u32 {
            for c_size in 0..4096u32 {
                if tier == "quick" && !(c_size < 8 || c_size > 4087 || c_size % 97 == 0) {
                    continue;
                }
                let mut csd = csd_v1(c_size, mult, rbl);
                if c_size % 2 == 1 {
                    csd[10] &= !0x40; // ERASE_BLK_EN = 0
                }
                jobs.push((Kind::V1Sdsc, csd));
                jobs.push((Kind::V2Sdsc, csd));
            }
        }
    }
    let v2_sizes: Vec<u32> = if tier == "quick" {
        vec![0, 1, 2, 0xFF, 0x100, 0xFFFF, 0x1_0000, 0x1F_FFFF, 0x3F_FFFE]
    } else {
        (0..0x3F_FFFFu32).step_by(1).collect()
    };
    for c in v2_sizes {
        let mut csd = csd_v2(c);
        if c % 2 == 1 {
            csd[10] &= !0x40;
        }
        jobs.push((Kind::V2Sdhc, csd));
    }
    let res: Vec<Option<Violation>> = sd_map(jobs.len(), |i| {
        let (kind, csd) = jobs[i];
        let mut card = Card::new_ready(kind, csd, true);
        card.capacity_blocks = 0;
        let c = conv(card, true);
        let ct = match kind {
            Kind::V1Sdsc => CardType::SD1,
            Kind::V2Sdsc => CardType::SD2,
            Kind::V2Sdhc => CardType::SDHC,
        };
        unsafe { c.sd.mark_card_as_init(ct) };
        let want = spec_capacity_blocks(&csd);
        for op in [SdOp::NumBlocks, SdOp::NumBytes, SdOp::EraseEnabled] {
            let r = exec(&c, op, 0);
            let w = match op {
                SdOp::NumBlocks => want,
                SdOp::NumBytes => want * 512,
                _ => (csd[10] >> 6 & 1) as u64,
            };
            if op == SdOp::NumBlocks && want > u32::MAX as u64 {
                continue;
            }
            if r != SdRes::Num(w) {
                let what = match &r {
                    SdRes::Panic(_) => "panics",
                    SdRes::Err(_) => "fails",
                    _ => "wrong",
                };
                return Some(v(
                    "C12",
                    format!("capacity/{}-{}/{:?}", opname(&op), what, kind),
                    format!("{:?} card with CSD {} (CSD_STRUCTURE {}): {} = {}, the register encodes {}", kind, crate::util::hex(&csd), csd[0] >> 6, opname(&op), r.class(), w),
                    json!({"prop":"C12","csd": crate::util::hex(&csd), "kind": kind_code(kind)}),
                ));
            }
        }
        None
    });
    let n = jobs.len() as u64;
    let mut out: Vec<Violation> = Vec::new();
    for x in res.into_iter().flatten() {
        if !out.iter().any(|y| y.sig == x.sig) {
            out.push(x);
        }
    }
    (out, n)
}

pub fn run_c12(tier: &str) -> i32 {
    let mut rep = Report::new("C12", tier, "model_checking");
    sd_set_deadline(tier);
    let agg = explore_sd("C12", tier, false);
    let (cv, cn) = csd_sweep(tier);
    rep.add_violations(agg.viols);
    rep.add_violations(cv);
    let (av, an) = accept_token_sweep();
    rep.add_violations(av);
    rep.cov("accepted_token_spellings_runs", json!(an));
    rep.cov("states", json!(agg.conversations));
    rep.cov("transitions", json!(agg.runs));
    rep.cov("traces_validated_against_impl", json!(agg.runs + cn));
    rep.cov("schedules_explored", json!(agg.runs));
    rep.cov("call_sequences", json!(agg.conversations));
    rep.cov("spi_byte_exchanges", json!(agg.exchanges));
    rep.cov("max_choice_points_in_one_run", json!(agg.max_points));
    if crate::simcard::CHOICE_POINT_CAP_HIT.load(std::sync::atomic::Ordering::Relaxed) {
        rep.cov("capped", json!(format!("a run had more than {} choice points; points beyond that index were not deviated from", crate::simcard::MAX_DEVIATION_POINT)));
    }
    rep.cov("csd_registers_checked", json!(cn));
    rep.cov("deviation_bound", json!(if tier == "quick" { "2 for single calls, 1 for sequences of two" } else { "2 up to depth 2, 1 at depth 3" }));
    rep.cov("timing_menus", json!({"N_CR": NCR_MENU, "acmd41_idle_iterations": ACMD41_MENU, "data_token_delay": TOKEN_DELAY_MENU, "busy_after_write": BUSY_WRITE_MENU, "busy_after_stop": BUSY_MENU}));
    rep.cov("outcomes", json!(agg.outcomes));
    rep.cov("samples", json!([{"kind":"V2Sdhc","crc":true,"ops":["Write(255, 3)","Read(255, 3)"],"choices":"all default"}, {"kind":"V1Sdsc","crc":false,"ops":["Write(0, 1)","MarkUninit"],"choices":"busy-after-write#3"}]));
    rep.assumptions.push("card timings are menus, not all integers below the time-outs".into());
    rep.assumptions.push("the card model is written from the SD physical layer specification (SPI mode) and validated by golden frames and by the unmodified driver working under every timing choice".into());
    sd_cap_note(&mut rep);
    rep.finish()
}

/// One "calls after errors" conversation: `first` under `fault`, then a healthy card and two more calls; the monitor
/// judges the whole conversation. When the first call is a multi-block write that the fault interrupts, the host cannot
/// end it properly (the card is gone), so only the busy, framing and ordering rules are judged there.
fn after_error_case(kind: Kind, crc: bool, fault: &Fault, first: SdOp) -> (Vec<(String, String)>, [String; 3]) {
    after_error_case_r(kind, crc, fault, first, 50)
}

fn after_error_case_r(kind: Kind, crc: bool, fault: &Fault, first: SdOp, retries: u32) -> (Vec<(String, String)>, [String; 3]) {
    with_retries(retries, || after_error_case_inner(kind, crc, fault, first))
}

fn after_error_case_inner(kind: Kind, crc: bool, fault: &Fault, first: SdOp) -> (Vec<(String, String)>, [String; 3]) {
    let mut card = Card::new(kind, default_csd(kind));
    card.fault = fault.clone();
    card.monitor = Some(Box::new(Monitor::new()));
    if std::env::var("VERIF_TRACE").is_ok() {
        card.trace = Some(Vec::new());
    }
    let c = conv(card, crc);
    let r1 = exec(&c, first, 0);
    if let Some(t) = c.card.borrow().trace.as_ref() {
        println!("  [trace] first call ends at bus byte {}", t.len());
    }
    {
        c.card.borrow_mut().heal();
    }
    let r2 = exec(&c, SdOp::Read(2, 1), 1);
    let r3 = exec(&c, SdOp::Write(3, 1), 2);
    if let Some(t) = c.card.borrow().trace.as_ref() {
        // compact dump: runs of (ff,ff) are folded
        let mut i = 0;
        while i < t.len() {
            let mut j = i;
            while j < t.len() && t[j] == (0xFF, 0xFF) {
                j += 1;
            }
            if j - i > 4 {
                println!("  [trace] {:>6}: (ff/ff) x {}", i, j - i);
                i = j;
                continue;
            }
            let mut k = i;
            let mut line = String::new();
            while k < t.len() && k < i + 16 {
                line.push_str(&format!("{:02x}/{:02x} ", t[k].0, t[k].1));
                k += 1;
            }
            println!("  [trace] {:>6}: {}", i, line);
            i = k;
        }
    }
    let mut cb = c.card.borrow_mut();
    let mon = cb.monitor.as_mut().unwrap();
    mon.finish();
    let multi_write_first = matches!(first, SdOp::Write(_, n) if n > 1);
    let vs = mon
        .violations
        .iter()
        .filter(|(sig, _)| !multi_write_first || sig.starts_with("busy/") || sig.starts_with("frame/") || sig.starts_with("order/"))
        .map(|(sig, d)| (format!("after-error/{}", sig), d.clone()))
        .collect();
    (vs, [r1.class(), r2.class(), r3.class()])
}

/// C14 "calls after errors": a first call that fails at some stage of identification (or later), then a healthy
/// card and two more calls.
fn after_error_runs(tier: &str) -> (Vec<Violation>, u64) {
    let kinds = [Kind::V1Sdsc, Kind::V2Sdsc, Kind::V2Sdhc];
    let mut jobs: Vec<(Kind, bool, Fault, SdOp, u32)> = Vec::new();
    for &k in &kinds {
        for crc in [true, false] {
            // few identification retries configured: the card is gone / stuck / erroring from the very first bytes
            for retries in [0u32, 1, 2] {
                let first = SdOp::Read(1, 1);
                jobs.push((k, crc, Fault::None, first, retries));
                jobs.push((k, crc, Fault::NeverReady, first, retries));
                for at in 0..24u64 {
                    jobs.push((k, crc, Fault::Silent { at }, first, retries));
                    jobs.push((k, crc, Fault::BusyForever { at }, first, retries));
                }
                for txn in 0..6u64 {
                    jobs.push((k, crc, Fault::SpiError { txn }, first, retries));
                }
            }
            // length of a fault-free identification + one read, in bytes and transactions
            let mut card = Card::new(k, default_csd(k));
            card.fault = Fault::None;
            let c = conv(card, crc);
            exec(&c, SdOp::Read(1, 1), 0);
            let (bytes, txns) = {
                let cb = c.card.borrow();
                (cb.exchanges, cb.txns)
            };
            let first = SdOp::Read(1, 1);
            jobs.push((k, crc, Fault::NeverReady, first, 50));
            let (bs, ts) = if tier == "quick" { (5, 3) } else { (1, 1) };
            for at in (0..bytes).step_by(bs) {
                jobs.push((k, crc, Fault::Silent { at }, first, 50));
            }
            for txn in (0..txns).step_by(ts) {
                jobs.push((k, crc, Fault::SpiError { txn }, first, 50));
            }
            // a multi-block write during which the card goes silent / stays busy for ever, at every byte of the write
            let mut card = Card::new(k, default_csd(k));
            card.fault = Fault::None;
            let c = conv(card, crc);
            exec(&c, SdOp::CardType, 0);
            let ident = c.card.borrow().exchanges;
            let firstw = SdOp::Write(1, 2);
            exec(&c, firstw, 1);
            let total = c.card.borrow().exchanges;
            for at in ident..total + 2 {
                                jobs.push((k, crc, Fault::BusyForever { at }, firstw, 50));
                if tier != "quick" || at % 3 == 0 {
                    jobs.push((k, crc, Fault::Silent { at }, firstw, 50));
                }
            }
        }
    }
    let res: Vec<Vec<Violation>> = sd_map(jobs.len(), |i| {
        let (kind, crc, fault, first, retries) = &jobs[i];
        let (vs, r) = after_error_case_r(*kind, *crc, fault, *first, *retries);
        vs.into_iter()
            .map(|(sig, detail)| {
                v(
                    "C14",
                    sig,
                    format!("{:?} card, CRC {}, first call {:?} under fault {:?} -> {}, then healthy card: read -> {}, write -> {}: {}", kind, if *crc { "on" } else { "off" }, first, fault, r[0], r[1], r[2], detail),
                    {
                        let mut j = fault_json(*kind, *crc, fault);
                        j["prop"] = json!("C14");
                        j["after_error"] = json!(true);
                        j["first"] = json!(format!("{:?}", first));
                        j["retries"] = json!(retries);
                        j
                    },
                )
            })
            .collect()
    });
    let n = jobs.len() as u64;
    let mut out: Vec<Violation> = Vec::new();
    for vv in res {
        for x in vv {
            if !out.iter().any(|y| y.sig == x.sig) {
                out.push(x);
            }
        }
    }
    (out, n)
}

pub fn run_c14(tier: &str) -> i32 {
    let mut rep = Report::new("C14", tier, "model_checking");
    sd_set_deadline(tier);
    let agg = explore_sd("C14", tier, true);
    rep.add_violations(agg.viols);
    let (av, an) = after_error_runs(tier);
    rep.add_violations(av);
    rep.cov("conversations_continued_after_a_failed_call", json!(an));
    rep.cov("states", json!(agg.conversations));
    rep.cov("transitions", json!(agg.runs));
    rep.cov("traces_validated_against_impl", json!(agg.runs));
    rep.cov("schedules_explored", json!(agg.runs));
    rep.cov("command_frames_checked", json!(agg.commands));
    rep.cov("spi_byte_exchanges", json!(agg.exchanges));
    rep.cov("outcomes", json!(agg.outcomes));
    rep.cov("samples", json!([{"kind":"V2Sdsc","crc":true,"ops":["MarkUninit","Read(1, 1)"]}, {"kind":"V2Sdhc","crc":false,"ops":["Read(1024, 1)","Write(0, 2)"],"note":"call after an error that needs no fault"}]));
    rep.assumptions.push("the monitor is a separate automaton fed with the raw MOSI/MISO bytes; CMD0 and CMD12 are exempt from the not-busy rule".into());
    sd_cap_note(&mut rep);
    rep.finish()
}

/// C19, "use in command framing and data blocks": the checksums the driver actually puts on the bus in a healthy
/// conversation of every call kind, for every card kind and CRC mode, judged by the monitor's independent division.
/// Returns (kind, crc, ops, signature, detail) for every checksum complaint, and the number of frames + blocks seen.
pub fn wire_checksum_runs() -> (Vec<(u8, bool, Vec<String>, String, String)>, u64) {
    let mut out = Vec::new();
    let mut seen = 0u64;
    for kind in [Kind::V1Sdsc, Kind::V2Sdsc, Kind::V2Sdhc] {
        for crc in [true, false] {
            let ops = [SdOp::Read(1, 1), SdOp::Read(2, 3), SdOp::Write(5, 1), SdOp::Write(8, 3), SdOp::NumBlocks, SdOp::EraseEnabled, SdOp::MarkUninit, SdOp::Read(0, 1)];
            let (_, r) = run_conversation(kind, crc, default_csd(kind), &ops, Chooser::default());
            seen += r.commands;
            for (sig, detail) in r.c14 {
                if sig.contains("crc") {
                    out.push((kind_code(kind), crc, ops.iter().map(|o| format!("{:?}", o)).collect(), sig, detail));
                }
            }
        }
    }
    (out, seen)
}

pub fn wire_checksum_replay(inp: &Value) -> Vec<(String, String)> {
    let kind = kind_from(inp["kind"].as_u64().unwrap_or(3));
    let crc = inp["crc"].as_bool().unwrap_or(true);
    let ops: Vec<SdOp> = inp["ops"].as_array().map(|a| a.iter().filter_map(|x| x.as_str().and_then(op_from_str)).collect()).unwrap_or_default();
    let (_, r) = run_conversation(kind, crc, default_csd(kind), &ops, Chooser::default());
    r.c14.into_iter().filter(|(s, _)| s.contains("crc")).collect()
}

// ---------------------------------------------------------------------------
// C13: misbehaving cards
// ---------------------------------------------------------------------------

fn scenario_ops(kind: Kind) -> Vec<SdOp> {
    let _ = kind;
    vec![SdOp::Read(1, 1), SdOp::Read(2, 3), SdOp::Write(5, 1), SdOp::Write(8, 3), SdOp::NumBlocks]
}

/// Run the scenario with a fault; judge every call. `healed_after`: heal the card after the first failing call.
fn run_faulty(kind: Kind, crc: bool, fault: Fault, inp: &Value) -> (Vec<Violation>, u64) {
    let mut out = Vec::new();
    let mut card = Card::new(kind, default_csd(kind));
    card.fault = fault.clone();
    card.monitor = Some(Box::new(Monitor::new()));
    let c = conv(card, crc);
    let ops = scenario_ops(kind);
    let mut failed_at: Option<usize> = None;
    let desc = format!("{:?} card, CRC {}, fault {:?}", kind, if crc { "on" } else { "off" }, fault);
    for (i, op) in ops.iter().enumerate() {
        let before = c.card.borrow().exchanges;
        let wire_before = c.card.borrow().wire.len();
        let r = exec(&c, *op, i);
        let used = c.card.borrow().exchanges - before;
        match &r {
            SdRes::Panic(m) if m.contains("HORIZON") => {
                out.push(v("C13", format!("hang@{}", opname(op)), format!("{}: {:?} did not return within the SPI traffic bound ({} byte exchanges)", desc, op, used), inp.clone()));
                return (out, c.card.borrow().exchanges);
            }
            SdRes::Panic(m) => {
                out.push(v("C13", format!("panic@{}", opname(op)), format!("{}: {:?}: {}", desc, op, m), inp.clone()));
                return (out, c.card.borrow().exchanges);
            }
            SdRes::Blocks(got) if crc => {
                // Ok only if every delivered block appeared on the wire behind a start token with a matching CRC
                let card = c.card.borrow();
                let log = &card.miso_log;
                let mut from = 0usize;
                for (k, g) in got.iter().enumerate() {
                    let mut found = false;
                    let mut p = from;
                    while p + 515 <= log.len() {
                        if log[p] == 0xFE && log[p + 1..p + 513] == g[..] {
                            let crc_ok = crate::props::c19::ref_crc16(g).to_be_bytes() == [log[p + 513], log[p + 514]];
                            if crc_ok {
                                found = true;
                                from = p + 515;
                                break;
                            }
                        }
                        p += 1;
                    }
                    if !found {
                        out.push(v(
                            "C13",
                            format!("corrupt-read-returned-ok@{}", opname(op)),
                            format!("{}: {:?} returned Ok but block {} of the result never appeared on the wire behind a start token with a matching CRC", desc, op, k),
                            inp.clone(),
                        ));
                        break;
                    }
                }
                let _ = wire_before;
            }
            _ => {}
        }
        if r.is_err() && failed_at.is_none() {
            failed_at = Some(i);
            if let SdRes::Err(e) = &r {
                LAST_ERR.with(|l| *l.borrow_mut() = e.clone());
            }
            break;
        }
    }
    // faults that must surface as an error in either CRC mode
    let must_fail = matches!(fault, Fault::DataResponse { .. } | Fault::Status { .. } | Fault::BadStartToken { .. } | Fault::SpiError { .. });
    let fired = {
        let card = c.card.borrow();
        match fault {
            Fault::DataResponse { nth, .. } => card.data_responses_sent > nth,
            Fault::BadStartToken { nth, .. } => card.due_token_indices.contains(&nth),
            Fault::SpiError { txn } => card.txns > txn,
            Fault::Status { .. } => card.data_responses_sent > 0,
            _ => true,
        }
    };
    if must_fail && fired && failed_at.is_none() {
        let kind_s = match fault {
            Fault::DataResponse { .. } => "rejected-data-block",
            Fault::Status { .. } => "failed-write-status",
            Fault::BadStartToken { .. } => "unexpected-token",
            _ => "spi-bus-error",
        };
        out.push(v("C13", format!("error-not-reported/{}", kind_s), format!("{}: every call of the scenario returned Ok", desc), inp.clone()));
    }
    if let Fault::FlipBits { .. } = fault {
        if crc && failed_at.is_none() {
            // handled by the wire oracle above; additionally every such corruption is detectable
            out.push(v("C13", "corruption-not-detected/bit-flips".into(), format!("{}: no call returned an error", desc), inp.clone()));
        }
    }
    // recovery
    if let Some(i) = failed_at {
        // a failure *of the identification sequence* must leave the card marked uninitialised: the next call then
        // re-runs identification by itself. It is a failure of identification when the first call failed and the
        // host never got as far as sending a post-identification command (CMD9/13/17/18/24/25).
        // (judged from the responses the host actually received: a card that answers 0x00 to everything *passes*
        // identification, and then the failure is one of the read, not of the identification)
        let sent_data_cmd = c.card.borrow().host_cmds.iter().any(|x| matches!(x, 9 | 13 | 17 | 18 | 24 | 25));
        let host_done = c.card.borrow().monitor.as_ref().map(|m| m.host_saw_identification_complete()).unwrap_or(false);
        let during_init = i == 0 && !sent_data_cmd && !host_done;
        let host_before = c.card.borrow().host_cmds.clone();
        // heal the card
        {
            c.card.borrow_mut().heal();
        }
        if !during_init {
            c.sd.mark_card_uninit();
        }
        let r1 = exec(&c, SdOp::Read(1, 1), 100);
        let r2 = exec(&c, SdOp::Write(9, 1), 101);
        let r3 = exec(&c, SdOp::Read(9, 1), 102);
        let ok = matches!(&r1, SdRes::Blocks(b) if b[0] == c.card.borrow().get(1)) && r2 == SdRes::Ok && matches!(&r3, SdRes::Blocks(b) if b[0] == c.card.borrow().get(9));
        if !ok {
            out.push(v(
                "C13",
                format!("no-recovery/{}", if during_init { "after-failed-initialisation-without-mark-uninit" } else { "after-mark-uninit" }),
                format!("{}: after the failure of call {} ({:?} -> {}; host commands sent so far {}) and healing the card{}: read -> {}, write -> {}, read back -> {}", desc, i, ops[i], exec_err_text(&c, &ops, i), if host_before.len() > 24 { format!("{:?} … {:?} ({} in all)", &host_before[..12], &host_before[host_before.len() - 8..], host_before.len()) } else { format!("{:?}", host_before) }, if during_init { "" } else { " and mark_card_uninit" }, r1.class(), r2.class(), r3.class()),
                inp.clone(),
            ));
        }
    }
    let n = c.card.borrow().exchanges;
    (out, n)
}

thread_local! {
    static LAST_ERR: RefCell<String> = const { RefCell::new(String::new()) };
}

fn exec_err_text(_c: &Conv, _ops: &[SdOp], _i: usize) -> String {
    LAST_ERR.with(|l| l.borrow().clone())
}

fn fault_json(kind: Kind, crc: bool, f: &Fault) -> Value {
    let fj = match f {
        Fault::None => json!({"t":"none"}),
        Fault::Silent { at } => json!({"t":"silent","at":at}),
        Fault::BusyForever { at } => json!({"t":"busy","at":at}),
        Fault::Garbage { at } => json!({"t":"garbage","at":at}),
        Fault::FlipBits { nth_block, bits } => json!({"t":"flip","nth":nth_block,"bits":bits}),
        Fault::DataResponse { nth, token } => json!({"t":"dataresp","nth":nth,"token":token}),
        Fault::Status { r1, r2 } => json!({"t":"status","r1":r1,"r2":r2}),
        Fault::BadStartToken { nth, token } => json!({"t":"badtoken","nth":nth,"token":token}),
        Fault::SpiError { txn } => json!({"t":"spierr","txn":txn}),
        Fault::NeverReady => json!({"t":"neverready"}),
    };
    json!({"prop":"C13","kind":kind_code(kind),"crc":crc,"fault":fj})
}

fn fault_from(j: &Value) -> Fault {
    let g = |k: &str| j[k].as_u64().unwrap_or(0);
    match j["t"].as_str().unwrap_or("") {
        "silent" => Fault::Silent { at: g("at") },
        "busy" => Fault::BusyForever { at: g("at") },
        "garbage" => Fault::Garbage { at: g("at") },
        "flip" => Fault::FlipBits { nth_block: g("nth") as u32, bits: j["bits"].as_array().map(|a| a.iter().map(|x| x.as_u64().unwrap_or(0) as usize).collect()).unwrap_or_default() },
        "dataresp" => Fault::DataResponse { nth: g("nth") as u32, token: g("token") as u8 },
        "status" => Fault::Status { r1: g("r1") as u8, r2: g("r2") as u8 },
        "badtoken" => Fault::BadStartToken { nth: g("nth") as u32, token: g("token") as u8 },
        "spierr" => Fault::SpiError { txn: g("txn") },
        "neverready" => Fault::NeverReady,
        _ => Fault::None,
    }
}

/// Bit flips and bursts on an already-identified card (skips initialisation for speed).
fn flip_case(kind: Kind, bits: &[usize]) -> Option<Violation> {
    flip_case_op(kind, bits, SdOp::Read(3, 1))
}

/// The same for any call whose first data block from the card is the corrupted one (a 512-byte block for a read,
/// the 16-byte register block for the capacity calls).
fn flip_case_op(kind: Kind, bits: &[usize], op: SdOp) -> Option<Violation> {
    let mut card = Card::new_ready(kind, default_csd(kind), true);
    card.fault = Fault::FlipBits { nth_block: 0, bits: bits.to_vec() };
    let c = conv(card, true);
    let ct = match kind {
        Kind::V1Sdsc => CardType::SD1,
        Kind::V2Sdsc => CardType::SD2,
        Kind::V2Sdhc => CardType::SDHC,
    };
    unsafe { c.sd.mark_card_as_init(ct) };
    let r = exec(&c, op, 0);
    match r {
        SdRes::Err(_) => None,
        other => Some(v(
            "C13",
            format!("corrupt-read-returned-ok@{}", opname(&op)),
            format!("{:?} card, CRC on: bits {:?} of data block + CRC flipped on the wire, {:?} returned {}", kind, bits, op, other.class()),
            json!({"prop":"C13","kind":kind_code(kind),"crc":true,"flip_ready":bits,"flip_op":format!("{:?}", op)}),
        )),
    }
}

pub fn run_c13(tier: &str) -> i32 {
    let mut rep = Report::new("C13", tier, "fault_enumeration");
    sd_set_deadline(tier);
    let kinds = [Kind::V1Sdsc, Kind::V2Sdsc, Kind::V2Sdhc];
    let mut viols: Vec<Violation> = Vec::new();
    let mut evals = 0u64;
    let mut exchanges = 0u64;
    let mut add = |viols: &mut Vec<Violation>, x: Violation| {
        if !viols.iter().any(|y| y.sig == x.sig) {
            viols.push(x);
        }
    };
    // baseline conversation length per (kind, crc)
    let mut lens: Vec<(Kind, bool, u64, u64)> = Vec::new();
    for &k in &kinds {
        for crc in [true, false] {
            let inp = fault_json(k, crc, &Fault::None);
            let (vv, n) = run_faulty(k, crc, Fault::None, &inp);
            for x in vv {
                add(&mut viols, x);
            }
            // transactions of the fault-free run
            let mut card = Card::new(k, default_csd(k));
            card.fault = Fault::None;
            let c = conv(card, crc);
            for (i, op) in scenario_ops(k).iter().enumerate() {
                exec(&c, *op, i);
            }
            let t = c.card.borrow().txns;
            lens.push((k, crc, n, t));
        }
    }
    // (b) at every byte position the card goes silent / busy forever / garbage
    let mut jobs: Vec<(Kind, bool, Fault)> = Vec::new();
    for &(k, crc, n, t) in &lens {
        let step = if tier == "quick" { 3 } else { 1 };
        for at in (0..n).step_by(step) {
            jobs.push((k, crc, Fault::Silent { at }));
            jobs.push((k, crc, Fault::BusyForever { at }));
            jobs.push((k, crc, Fault::Garbage { at }));
        }
        // (d) SPI bus error at every transaction index
        let tstep = 1;
        for txn in (0..t).step_by(tstep) {
            jobs.push((k, crc, Fault::SpiError { txn }));
        }
        // (c) every data response token other than "accepted", every non-zero status, every unexpected start token
        for nth in 0..4u32 {
            for token in 0..=255u8 {
                if token & 0x1F != 0x05 {
                    if tier == "quick" && nth > 0 && token % 16 != 11 {
                        continue;
                    }
                    jobs.push((k, crc, Fault::DataResponse { nth, token }));
                }
            }
        }
        for r1 in [0u8, 0x01, 0x04, 0x08, 0x20, 0x40, 0x7F] {
            for r2 in [0u8, 0x01, 0x02, 0x04, 0x08, 0x10, 0x20, 0x40, 0x80, 0xFF] {
                if r1 != 0 || r2 != 0 {
                    jobs.push((k, crc, Fault::Status { r1, r2 }));
                }
            }
        }
        for nth in 0..6u32 {
            for token in 0..=254u8 {
                if token != 0xFE {
                    if tier == "quick" && token % 8 != 1 {
                        continue;
                    }
                    jobs.push((k, crc, Fault::BadStartToken { nth, token }));
                }
            }
        }
        jobs.push((k, crc, Fault::NeverReady));
        // (a) single-bit flips in every data block the scenario reads (thorough), first block (quick)
        if crc {
            let blocks = if tier == "quick" { 1 } else { 4 };
            for nth in 0..blocks {
                for b in 0..(514 * 8) {
                    if tier == "quick" && b % 3 != 0 {
                        continue;
                    }
                    jobs.push((k, crc, Fault::FlipBits { nth_block: nth, bits: vec![b] }));
                }
            }
        }
    }
    let res: Vec<(Vec<Violation>, u64)> = sd_map(jobs.len(), |i| {
        let (k, crc, f) = &jobs[i];
        let inp = fault_json(*k, *crc, f);
        run_faulty(*k, *crc, f.clone(), &inp)
    });
    evals += jobs.len() as u64;
    // (e) the same stereotypes at the very start of the conversation with 0, 1 and 2 identification retries configured
    let mut rjobs: Vec<(Kind, bool, Fault, u32)> = Vec::new();
    for &k in &kinds {
        for crc in [true, false] {
            for retries in [0u32, 1, 2] {
                rjobs.push((k, crc, Fault::None, retries));
                rjobs.push((k, crc, Fault::NeverReady, retries));
                for at in [0u64, 1, 6, 7, 8, 9, 14, 30] {
                    rjobs.push((k, crc, Fault::Silent { at }, retries));
                    rjobs.push((k, crc, Fault::BusyForever { at }, retries));
                    rjobs.push((k, crc, Fault::Garbage { at }, retries));
                }
                for txn in 0..6u64 {
                    rjobs.push((k, crc, Fault::SpiError { txn }, retries));
                }
            }
        }
    }
    let rres: Vec<(Vec<Violation>, u64)> = sd_map(rjobs.len(), |i| {
        let (k, crc, f, retries) = &rjobs[i];
        let mut inp = fault_json(*k, *crc, f);
        inp["retries"] = json!(retries);
        with_retries(*retries, || run_faulty(*k, *crc, f.clone(), &inp))
    });
    evals += rjobs.len() as u64;
    rep.cov("runs_with_0_1_2_identification_retries", json!(rjobs.len()));
    for (vv, n) in rres {
        exchanges += n;
        for mut x in vv {
            x.sig = format!("{}/few-retries", x.sig);
            add(&mut viols, x);
        }
    }
    for (vv, n) in res {
        exchanges += n;
        for x in vv {
            add(&mut viols, x);
        }
    }
    // (a) every single-bit flip and bursts up to 16 bits, on an identified card
    let nbits = 514 * 8;
    let patterns: Vec<Vec<usize>> = {
        let mut p = vec![vec![0usize]];
        for len in 2..=16usize {
            for mid in 0..(1u32 << (len - 2)) {
                let mut bits = vec![0usize];
                for k in 0..(len - 2) {
                    if mid >> k & 1 != 0 {
                        bits.push(k + 1);
                    }
                }
                bits.push(len - 1);
                p.push(bits);
            }
        }
        p
    };
    let burst: Vec<(Option<Violation>, u64)> = sd_map(nbits, |pos| {
        let mut n = 0u64;
        let all = tier == "thorough" || pos % 64 == 0;
        for (pi, pat) in patterns.iter().enumerate() {
            if !all && !(pi < 8 || pi % 4099 == 7) {
                continue;
            }
            if tier == "thorough" && pos % 8 != 0 && pi > 64 && pi % 16 != 3 {
                // thorough: all patterns at byte-aligned positions, a sixteenth elsewhere (the full product is C19's job)
                continue;
            }
            let bits: Vec<usize> = pat.iter().map(|o| pos + o).filter(|&b| b < nbits).collect();
            if bits.len() != pat.len() {
                continue;
            }
            n += 1;
            let kind = kinds[(pos + pi) % 3];
            if let Some(x) = flip_case(kind, &bits) {
                return (Some(x), n);
            }
        }
        (None, n)
    });
    let mut burst_n = 0u64;
    for (x, n) in burst {
        burst_n += n;
        if let Some(x) = x {
            add(&mut viols, x);
        }
    }
    evals += burst_n;
    // (a') the same for the 16-byte register block + CRC that the capacity calls read
    let rbits = 18 * 8;
    let reg: Vec<(Option<Violation>, u64)> = sd_map(rbits, |pos| {
        let mut n = 0u64;
        let all = tier == "thorough" || pos % 8 == 0;
        for (pi, pat) in patterns.iter().enumerate() {
            if !all && pi >= 8 {
                break;
            }
            let bits: Vec<usize> = pat.iter().map(|o| pos + o).filter(|&b| b < rbits).collect();
            if bits.len() != pat.len() {
                continue;
            }
            n += 1;
            let kind = kinds[(pos + pi) % 3];
            let op = [SdOp::NumBlocks, SdOp::NumBytes, SdOp::EraseEnabled][(pos + pi / 3) % 3];
            if let Some(x) = flip_case_op(kind, &bits, op) {
                return (Some(x), n);
            }
        }
        (None, n)
    });
    let mut reg_n = 0u64;
    for (x, n) in reg {
        reg_n += n;
        if let Some(x) = x {
            add(&mut viols, x);
        }
    }
    evals += reg_n;
    rep.cov("register_block_burst_runs", json!(reg_n));
    rep.add_violations(viols);
    rep.cov("evaluations", json!(evals));
    rep.cov("distinct_nontrivial", json!(evals - 6));
    rep.cov("rule", json!("for each card kind x CRC mode over the scenario {init, read 1, read 3, write 1, write 3, num_blocks}: the card goes silent / busy forever / garbage at every byte position of the conversation, an SPI bus error at every transaction index, every data-response token other than accepted, every non-zero status reply, every wrong start token, a card that never leaves idle, every single-bit flip of a data block + CRC; plus bit bursts up to 16 bits at every position on an identified card; every faulty run is distinct by construction and non-trivial (the fault-free runs are the 6 trivial ones)"));
    rep.cov("fault_runs_of_whole_scenario", json!(jobs.len()));
    rep.cov("burst_runs", json!(burst_n));
    rep.cov("spi_byte_exchanges", json!(exchanges));
    rep.cov("traffic_bound_per_call", json!(50_000_000u64));
    rep.cov("samples", json!([fault_json(Kind::V2Sdhc, true, &Fault::Silent { at: 1234 }), fault_json(Kind::V1Sdsc, false, &Fault::DataResponse { nth: 0, token: 0x0B }), fault_json(Kind::V2Sdsc, true, &Fault::FlipBits { nth_block: 0, bits: vec![4100] })]));
    rep.cov("exhaustive", json!(tier == "thorough"));
    rep.assumptions.push("the fixed bound on SPI traffic is 5*10^7 byte exchanges per call, about 100 times the worst case of the current time-out constants".into());
    rep.assumptions.push("misbehaving cards are three stereotypes per byte position (silent, busy forever, fixed garbage cycle)".into());
    sd_cap_note(&mut rep);
    rep.finish()
}

pub fn replay_input(inp: &Value) -> i32 {
    let prop = inp["prop"].as_str().unwrap_or("");
    let kind = kind_from(inp["kind"].as_u64().unwrap_or(3));
    let crc = inp["crc"].as_bool().unwrap_or(true);
    let mut found: Vec<(String, String)> = Vec::new();
    if let Some(bits) = inp.get("flip_ready").and_then(|x| x.as_array()) {
        let bits: Vec<usize> = bits.iter().map(|x| x.as_u64().unwrap_or(0) as usize).collect();
        let op = inp["flip_op"].as_str().and_then(op_from_str).unwrap_or(SdOp::Read(3, 1));
        if let Some(x) = flip_case_op(kind, &bits, op) {
            found.push((x.sig, x.detail));
        }
    } else if let Some(tok) = inp.get("accept_token").and_then(|x| x.as_u64()) {
        let ops = [SdOp::Write(5, 1), SdOp::Write(8, 3), SdOp::Read(5, 1), SdOp::Read(8, 3)];
        let (_, r) = run_conversation_f(kind, crc, default_csd(kind), &ops, Chooser::default(), Fault::DataResponse { nth: inp["nth"].as_u64().unwrap_or(0) as u32, token: tok as u8 });
        for o in &r.outcomes {
            println!("  {}", o);
        }
        found.extend(r.c12.into_iter().map(|(s, d)| (format!("accepted-token-spelling/{}", s), d)));
    } else if let Some(csd) = inp.get("csd").and_then(|x| x.as_str()) {
        let mut c = [0u8; 16];
        for i in 0..16 {
            c[i] = u8::from_str_radix(&csd[2 * i..2 * i + 2], 16).unwrap_or(0);
        }
        let (_, out) = run_conversation(kind, true, c, &[SdOp::NumBlocks, SdOp::NumBytes, SdOp::EraseEnabled], Chooser::default());
        found.extend(out.c12);
    } else if inp["after_error"].as_bool() == Some(true) {
        let fault = fault_from(&inp["fault"]);
        let first = inp["first"].as_str().and_then(op_from_str).unwrap_or(SdOp::Read(1, 1));
        let (vs, r) = after_error_case_r(kind, crc, &fault, first, inp["retries"].as_u64().unwrap_or(50) as u32);
        println!("  first call {:?}: {}", first, r[0]);
        println!("  healthy card: read -> {}", r[1]);
        println!("  healthy card: write -> {}", r[2]);
        found.extend(vs);
    } else if prop == "C13" {
        let f = fault_from(&inp["fault"]);
        let retries = inp["retries"].as_u64().unwrap_or(50) as u32;
        let (vv, _) = with_retries(retries, || run_faulty(kind, crc, f, inp));
        for x in vv {
            found.push((x.sig, x.detail));
        }
    } else {
        let ops: Vec<SdOp> = inp["ops"].as_array().map(|a| a.iter().filter_map(|x| x.as_str().and_then(op_from_str)).collect()).unwrap_or_default();
        let choices: Vec<u8> = inp["choices"].as_array().map(|a| a.iter().map(|x| x.as_u64().unwrap_or(0) as u8).collect()).unwrap_or_default();
        let (_, out) = run_conversation(kind, crc, default_csd(kind), &ops, Chooser::with_prefix(choices));
        for o in &out.outcomes {
            println!("  {}", o);
        }
        found.extend(if prop == "C14" { out.c14 } else { out.c12 });
    }
    if found.is_empty() {
        println!("no violation on replay");
        0
    } else {
        for (s, d) in found {
            println!("VIOLATION property={} signature={}\n  {}", prop, s, d);
        }
        1
    }
}
