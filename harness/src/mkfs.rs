//! Independent FAT16/FAT32 formatter, written from the Microsoft FAT
//! specification (fatgen103) and the MBR layout. Shares no code with the crate.

use crate::simdisk::{BaseImage, Blk, StaleRegion, ZERO};
use crate::util::{put16, put32};
use std::collections::HashMap;

#[derive(Clone, Debug)]
pub struct Geom {
    pub fat32: bool,
    pub lba_start: u32,
    pub spc: u8,
    pub reserved: u16,
    pub nfats: u8,
    /// blocks per FAT; 0 = minimal size for the cluster count
    pub fat_size: u32,
    pub root_entries: u16,
    pub clusters: u32,
    /// extra blocks after the last whole cluster (a trailing partial cluster)
    pub tail: u32,
    pub root_cluster: u32,
    pub fsinfo_block: u16,
    /// store the total in the 16-bit field when it fits
    pub total16: bool,
    pub part_slot: usize,
    pub part_type: u8,
    /// FAT32 only: set a non-zero reserved high nibble on some entries
    pub hi_nibble: bool,
    pub label: [u8; 11],
    /// MBR status byte of the partition entry (0x00 inactive, 0x80 active/bootable)
    pub status: u8,
}

impl Geom {
    pub fn fat16(clusters: u32, spc: u8) -> Geom {
        Geom {
            fat32: false,
            lba_start: 8,
            spc,
            reserved: 1,
            nfats: 2,
            fat_size: 0,
            root_entries: 16,
            clusters,
            tail: 0,
            root_cluster: 0,
            fsinfo_block: 0,
            total16: true,
            part_slot: 0,
            part_type: 0x06,
            hi_nibble: false,
            label: *b"NO NAME    ",
            status: 0x00,
        }
    }
    pub fn fat32(clusters: u32, spc: u8) -> Geom {
        Geom {
            fat32: true,
            lba_start: 8,
            spc,
            reserved: 32,
            nfats: 2,
            fat_size: 0,
            root_entries: 0,
            clusters,
            tail: 0,
            root_cluster: 2,
            fsinfo_block: 1,
            total16: false,
            part_slot: 0,
            part_type: 0x0C,
            hi_nibble: false,
            label: *b"NO NAME    ",
            status: 0x00,
        }
    }
    pub fn min_fat_size(&self) -> u32 {
        let bytes = (self.clusters as u64 + 2) * if self.fat32 { 4 } else { 2 };
        bytes.div_ceil(512) as u32
    }
    pub fn fatsz(&self) -> u32 {
        if self.fat_size == 0 {
            self.min_fat_size()
        } else {
            self.fat_size
        }
    }
    pub fn root_blocks(&self) -> u32 {
        if self.fat32 {
            0
        } else {
            (self.root_entries as u32 * 32).div_ceil(512)
        }
    }
    /// relative to partition start
    pub fn fat_start(&self) -> u32 {
        self.reserved as u32
    }
    pub fn root_start(&self) -> u32 {
        self.fat_start() + self.nfats as u32 * self.fatsz()
    }
    pub fn first_data(&self) -> u32 {
        self.root_start() + self.root_blocks()
    }
    pub fn total_blocks(&self) -> u32 {
        self.first_data() + self.clusters * self.spc as u32 + self.tail
    }
    /// absolute block of a cluster
    pub fn cluster_block(&self, c: u32) -> u32 {
        self.lba_start + self.first_data() + (c - 2) * self.spc as u32
    }
    pub fn cluster_bytes(&self) -> u32 {
        self.spc as u32 * 512
    }
    pub fn eoc(&self) -> u32 {
        if self.fat32 {
            0x0FFF_FFFF
        } else {
            0xFFFF
        }
    }
    /// absolute, exclusive
    pub fn part_end(&self) -> u32 {
        self.lba_start + self.total_blocks()
    }
}

pub const FMT_DATE: u16 = ((2018 - 1980) << 9) | (12 << 5) | 9;
pub const FMT_TIME: u16 = (19 << 11) | (22 << 5) | (34 / 2);

/// Encode a 32-byte short directory entry at the specification's offsets.
pub fn short_entry(
    name: &[u8; 11],
    attr: u8,
    cluster: u32,
    size: u32,
    cdate: u16,
    ctime: u16,
    wdate: u16,
    wtime: u16,
) -> [u8; 32] {
    let mut e = [0u8; 32];
    e[0..11].copy_from_slice(name);
    e[11] = attr;
    put16(&mut e, 14, ctime);
    put16(&mut e, 16, cdate);
    put16(&mut e, 20, (cluster >> 16) as u16);
    put16(&mut e, 22, wtime);
    put16(&mut e, 24, wdate);
    put16(&mut e, 26, cluster as u16);
    put32(&mut e, 28, size);
    e
}

/// "NAME.EXT" -> 11 space-padded bytes (no validation; the formatter may write anything)
pub fn n11(s: &str) -> [u8; 11] {
    let mut out = [b' '; 11];
    if s == "." || s == ".." {
        out[..s.len()].copy_from_slice(s.as_bytes());
        return out;
    }
    let (b, e) = match s.rfind('.') {
        Some(p) => (&s[..p], &s[p + 1..]),
        None => (s, ""),
    };
    for (i, c) in b.bytes().take(8).enumerate() {
        out[i] = c;
    }
    for (i, c) in e.bytes().take(3).enumerate() {
        out[8 + i] = c;
    }
    out
}

pub fn lfn_checksum(name: &[u8; 11]) -> u8 {
    let mut sum = 0u8;
    for &b in name {
        sum = (if sum & 1 != 0 { 0x80u8 } else { 0 })
            .wrapping_add(sum >> 1)
            .wrapping_add(b);
    }
    sum
}

/// One LFN slot. `units` are the 13 UTF-16 code units of this fragment.
pub fn lfn_slot(seq: u8, last: bool, csum: u8, units: &[u16; 13]) -> [u8; 32] {
    let mut e = [0u8; 32];
    e[0] = seq | if last { 0x40 } else { 0 };
    e[11] = 0x0F;
    e[13] = csum;
    const POS: [usize; 13] = [1, 3, 5, 7, 9, 14, 16, 18, 20, 22, 24, 28, 30];
    for (i, p) in POS.iter().enumerate() {
        put16(&mut e, *p, units[i]);
    }
    e
}

/// The LFN slots (in on-disk order: highest sequence first) for a long name.
pub fn lfn_slots(name: &[u16], csum: u8) -> Vec<[u8; 32]> {
    let nfrag = name.len().div_ceil(13).max(1);
    let mut out = Vec::new();
    for k in (0..nfrag).rev() {
        let mut units = [0xFFFFu16; 13];
        for i in 0..13 {
            let p = k * 13 + i;
            if p < name.len() {
                units[i] = name[p];
            } else if p == name.len() {
                units[i] = 0;
            }
        }
        out.push(lfn_slot((k + 1) as u8, k == nfrag - 1, csum, &units));
    }
    out
}

/// Content pattern for formatter-made files.
pub fn pat(seed: u32, off: u32) -> u8 {
    (crate::util::mix64(((seed as u64) << 32) | off as u64) >> 24) as u8
}

#[derive(Clone, Copy, Debug, PartialEq, Eq, Hash)]
pub struct Dir(pub u32); // 0 = FAT16 root region; otherwise first cluster

#[derive(Clone, Copy, Debug, PartialEq, Eq)]
pub enum FsInfo {
    Correct,
    Unknown,
    StaleSmall,
    StaleLarge,
    NextOutOfRange,
    /// correct count, hint unknown
    CountOnly,
    /// count unknown, correct hint
    HintOnly,
    Raw(u32, u32),
    /// correct count, this next-free hint (allocation starts there)
    Hint(u32),
}

pub struct Mk {
    pub g: Geom,
    pub fat: Vec<u32>,
    pub data: HashMap<u32, Blk>,
    cursor: HashMap<u32, usize>,
    chains: HashMap<u32, Vec<u32>>,
    pub second_part: Option<(usize, u8, u32, u32)>,
}

impl Mk {
    pub fn new(g: Geom) -> Mk {
        let n = g.clusters as usize + 2;
        let mut fat = vec![0u32; n];
        if g.fat32 {
            fat[0] = 0x0FFF_FFF8;
            fat[1] = 0x0FFF_FFFF;
            if g.hi_nibble {
                for (i, e) in fat.iter_mut().enumerate().skip(2) {
                    if i % 3 == 0 {
                        *e |= 0xA000_0000;
                    }
                }
            }
        } else {
            fat[0] = 0xFFF8;
            fat[1] = 0xFFFF;
        }
        let mut mk = Mk {
            g,
            fat,
            data: HashMap::new(),
            cursor: HashMap::new(),
            chains: HashMap::new(),
            second_part: None,
        };
        if mk.g.fat32 {
            let rc = mk.g.root_cluster;
            mk.set_chain(&[rc]);
            mk.zero_cluster(rc);
            mk.chains.insert(rc, vec![rc]);
        }
        mk
    }

    pub fn root(&self) -> Dir {
        if self.g.fat32 {
            Dir(self.g.root_cluster)
        } else {
            Dir(0)
        }
    }

    fn set_fat(&mut self, c: u32, v: u32) {
        let hi = if self.g.fat32 {
            self.fat[c as usize] & 0xF000_0000
        } else {
            0
        };
        self.fat[c as usize] = hi | v;
    }

    pub fn is_free(&self, c: u32) -> bool {
        (self.fat[c as usize] & 0x0FFF_FFFF) == 0
    }

    pub fn set_chain(&mut self, cl: &[u32]) {
        for (i, &c) in cl.iter().enumerate() {
            assert!(c >= 2 && c < self.g.clusters + 2, "cluster {} out of range", c);
            assert!(self.is_free(c), "cluster {} already used", c);
            // any of the eight end-of-chain values is legal; which one is used depends on the cluster number
            let v = if i + 1 < cl.len() { cl[i + 1] } else { (self.g.eoc() & !7) | (c & 7) };
            self.set_fat(c, v);
        }
    }

    /// Extend the chain of an existing formatter-made directory (for multi-cluster dirs).
    pub fn extend_dir(&mut self, d: Dir, more: &[u32]) {
        let mut ch = self.chains.get(&d.0).cloned().expect("unknown dir");
        let last = *ch.last().unwrap();
        self.set_fat(last, 0); // temporarily free so set_chain can relink
        let mut all = vec![last];
        all.extend_from_slice(more);
        // mark `last` free for the assertion, then link
        self.set_chain(&all);
        for &c in more {
            self.zero_cluster(c);
        }
        ch.extend_from_slice(more);
        self.chains.insert(d.0, ch);
    }

    pub fn zero_cluster(&mut self, c: u32) {
        let b0 = self.g.cluster_block(c);
        for i in 0..self.g.spc as u32 {
            self.data.insert(b0 + i, ZERO);
        }
    }

    fn slot_block(&self, d: Dir, slot: usize) -> (u32, usize) {
        if d.0 == 0 {
            assert!(!self.g.fat32);
            assert!(slot < self.g.root_entries as usize, "FAT16 root overflow");
            (
                self.g.lba_start + self.g.root_start() + (slot / 16) as u32,
                (slot % 16) * 32,
            )
        } else {
            let ch = self.chains.get(&d.0).expect("unknown dir");
            let per = 16 * self.g.spc as usize;
            let ci = slot / per;
            assert!(ci < ch.len(), "directory chain too short for slot {}", slot);
            (
                self.g.cluster_block(ch[ci]) + ((slot % per) / 16) as u32,
                (slot % 16) * 32,
            )
        }
    }

    pub fn put_slot_at(&mut self, d: Dir, slot: usize, e: &[u8; 32]) {
        let (b, o) = self.slot_block(d, slot);
        let blk = self.data.entry(b).or_insert(ZERO);
        blk[o..o + 32].copy_from_slice(e);
    }

    /// Change bytes of a slot already written.
    pub fn patch_slot(&mut self, d: Dir, slot: usize, f: impl FnOnce(&mut [u8])) {
        let (b, o) = self.slot_block(d, slot);
        let blk = self.data.entry(b).or_insert(ZERO);
        f(&mut blk[o..o + 32]);
    }

    pub fn next_slot(&self, d: Dir) -> usize {
        *self.cursor.get(&d.0).unwrap_or(&0)
    }

    /// Append a raw slot; returns its index.
    pub fn put_slot(&mut self, d: Dir, e: &[u8; 32]) -> usize {
        let s = self.next_slot(d);
        self.put_slot_at(d, s, e);
        self.cursor.insert(d.0, s + 1);
        s
    }

    pub fn skip_slots(&mut self, d: Dir, n: usize) {
        let s = self.next_slot(d);
        self.cursor.insert(d.0, s + n);
    }

    /// Write file contents: byte at offset o is pat(seed, o).
    pub fn fill_file(&mut self, chain: &[u32], size: u32, seed: u32) {
        let cb = self.g.cluster_bytes();
        let mut off = 0u32;
        while off < size {
            let ci = (off / cb) as usize;
            let within = off % cb;
            let b = self.g.cluster_block(chain[ci]) + within / 512;
            let mut blk = ZERO;
            for i in 0..512u32 {
                if off + i < size {
                    blk[i as usize] = pat(seed, off + i);
                }
            }
            self.data.insert(b, blk);
            off += 512;
        }
    }

    pub fn file(&mut self, d: Dir, name: &str, attr: u8, chain: &[u32], size: u32, seed: u32) -> usize {
        if !chain.is_empty() {
            self.set_chain(chain);
            self.fill_file(chain, size, seed);
        }
        let first = chain.first().copied().unwrap_or(0);
        let e = short_entry(&n11(name), attr, first, size, FMT_DATE, FMT_TIME, FMT_DATE, FMT_TIME);
        self.put_slot(d, &e)
    }

    /// A file whose data blocks are left to the filler (large files).
    pub fn file_nodata(&mut self, d: Dir, name: &str, attr: u8, chain: &[u32], size: u32) -> usize {
        self.set_chain(chain);
        let e = short_entry(&n11(name), attr, chain[0], size, FMT_DATE, FMT_TIME, FMT_DATE, FMT_TIME);
        self.put_slot(d, &e)
    }

    pub fn mkdir(&mut self, parent: Dir, name: &str, chain: &[u32]) -> Dir {
        self.set_chain(chain);
        for &c in chain {
            self.zero_cluster(c);
        }
        let d = Dir(chain[0]);
        self.chains.insert(d.0, chain.to_vec());
        let e = short_entry(&n11(name), 0x10, chain[0], 0, FMT_DATE, FMT_TIME, FMT_DATE, FMT_TIME);
        self.put_slot(parent, &e);
        let dot = short_entry(&n11("."), 0x10, chain[0], 0, FMT_DATE, FMT_TIME, FMT_DATE, FMT_TIME);
        // ".." of a first-level directory is 0 by specification
        let pc = if parent == self.root() { 0 } else { parent.0 };
        let dotdot = short_entry(&n11(".."), 0x10, pc, 0, FMT_DATE, FMT_TIME, FMT_DATE, FMT_TIME);
        self.put_slot(d, &dot);
        self.put_slot(d, &dotdot);
        d
    }

    pub fn free_clusters(&self) -> Vec<u32> {
        (2..self.g.clusters + 2).filter(|&c| self.is_free(c)).collect()
    }

    /// Take every free cluster except `keep_free` out of circulation by marking it BAD in the FAT (a legal way for
    /// a volume to be nearly full that needs no 65 000-cluster chain to be walked after every call). The first 40
    /// clusters are given to a file BALLAST.BIN instead so that an ordinary long chain exists too.
    pub fn ballast(&mut self, d: Dir, keep_free: &[u32]) {
        let all: Vec<u32> = self
            .free_clusters()
            .into_iter()
            .filter(|c| !keep_free.contains(c))
            .collect();
        if all.is_empty() {
            return;
        }
        let (chain, bad) = all.split_at(all.len().min(40));
        let bad_mark = if self.g.fat32 { 0x0FFF_FFF7 } else { 0xFFF7 };
        for &c in bad {
            self.set_fat(c, bad_mark);
        }
        let size = (chain.len() as u64 * self.g.cluster_bytes() as u64).min(u32::MAX as u64) as u32;
        self.file_nodata(d, "BALLAST.BIN", 0x01, chain, size);
    }

    pub fn finish(self, fsinfo: FsInfo) -> BaseImage {
        let g = self.g.clone();
        let mut img = BaseImage::default();
        // MBR
        let mut mbr = ZERO;
        {
            let p = 446 + 16 * g.part_slot;
            mbr[p] = g.status;
            mbr[p + 4] = g.part_type;
            put32(&mut mbr, p + 8, g.lba_start);
            put32(&mut mbr, p + 12, g.total_blocks());
            if let Some((slot, ty, lba, n)) = self.second_part {
                let p = 446 + 16 * slot;
                mbr[p] = 0x00;
                mbr[p + 4] = ty;
                put32(&mut mbr, p + 8, lba);
                put32(&mut mbr, p + 12, n);
            }
            mbr[510] = 0x55;
            mbr[511] = 0xAA;
        }
        img.explicit.insert(0, mbr);
        // Boot sector
        let mut bs = ZERO;
        bs[0] = 0xEB;
        bs[1] = 0x3C;
        bs[2] = 0x90;
        bs[3..11].copy_from_slice(b"VERIFMK ");
        put16(&mut bs, 11, 512);
        bs[13] = g.spc;
        put16(&mut bs, 14, g.reserved);
        bs[16] = g.nfats;
        put16(&mut bs, 17, if g.fat32 { 0 } else { g.root_entries });
        let total = g.total_blocks();
        if g.total16 && total < 0x10000 {
            put16(&mut bs, 19, total as u16);
            put32(&mut bs, 32, 0);
        } else {
            put16(&mut bs, 19, 0);
            put32(&mut bs, 32, total);
        }
        bs[21] = 0xF8;
        put16(&mut bs, 24, 63);
        put16(&mut bs, 26, 255);
        put32(&mut bs, 28, g.lba_start);
        if g.fat32 {
            put16(&mut bs, 22, 0);
            put32(&mut bs, 36, g.fatsz());
            put16(&mut bs, 40, 0);
            put16(&mut bs, 42, 0);
            put32(&mut bs, 44, g.root_cluster);
            put16(&mut bs, 48, g.fsinfo_block);
            put16(&mut bs, 50, 6);
            bs[64] = 0x80;
            bs[66] = 0x29;
            put32(&mut bs, 67, 0x1234_5678);
            bs[71..82].copy_from_slice(&g.label);
            bs[82..90].copy_from_slice(b"FAT32   ");
        } else {
            put16(&mut bs, 22, g.fatsz() as u16);
            bs[36] = 0x80;
            bs[38] = 0x29;
            put32(&mut bs, 39, 0x1234_5678);
            bs[43..54].copy_from_slice(&g.label);
            bs[54..62].copy_from_slice(b"FAT16   ");
        }
        bs[510] = 0x55;
        bs[511] = 0xAA;
        img.explicit.insert(g.lba_start, bs);
        if g.fat32 {
            // backup boot sector at 6 when it fits
            if g.reserved > 7 {
                img.explicit.insert(g.lba_start + 6, bs);
            }
            let free: u32 = (2..g.clusters + 2)
                .filter(|&c| self.fat[c as usize] & 0x0FFF_FFFF == 0)
                .count() as u32;
            let first_free = (2..g.clusters + 2)
                .find(|&c| self.fat[c as usize] & 0x0FFF_FFFF == 0)
                .unwrap_or(0xFFFF_FFFF);
            let (fc, nf) = match fsinfo {
                FsInfo::Correct => (free, first_free),
                FsInfo::Unknown => (0xFFFF_FFFF, 0xFFFF_FFFF),
                FsInfo::StaleSmall => (0, first_free),
                FsInfo::StaleLarge => (free + 1000, first_free),
                FsInfo::NextOutOfRange => (free, g.clusters + 2 + 500),
                FsInfo::CountOnly => (free, 0xFFFF_FFFF),
                FsInfo::HintOnly => (0xFFFF_FFFF, first_free),
                FsInfo::Raw(a, b) => (a, b),
                FsInfo::Hint(h) => (free, h),
            };
            let mut fi = ZERO;
            put32(&mut fi, 0, 0x4161_5252);
            put32(&mut fi, 484, 0x6141_7272);
            put32(&mut fi, 488, fc);
            put32(&mut fi, 492, nf);
            put32(&mut fi, 508, 0xAA55_0000);
            img.explicit.insert(g.lba_start + g.fsinfo_block as u32, fi);
        }
        // FATs
        let per = if g.fat32 { 128 } else { 256 };
        for copy in 0..g.nfats as u32 {
            let base = g.lba_start + g.fat_start() + copy * g.fatsz();
            for s in 0..g.fatsz() {
                let mut blk = ZERO;
                let mut nz = false;
                for i in 0..per {
                    let n = s as usize * per + i;
                    if n < self.fat.len() {
                        let v = self.fat[n];
                        if v != 0 {
                            nz = true;
                        }
                        if g.fat32 {
                            put32(&mut blk, i * 4, v);
                        } else {
                            put16(&mut blk, i * 2, v as u16);
                        }
                    }
                }
                if nz {
                    img.explicit.insert(base + s, blk);
                }
            }
        }
        for (k, v) in self.data {
            img.explicit.insert(k, v);
        }
        img.stale.push(StaleRegion {
            first_block: g.lba_start + g.first_data(),
            end_block: g.lba_start + g.first_data() + g.clusters * g.spc as u32,
            clusters: g.clusters,
        });
        img
    }
}
