//! Protocol monitor for the host side of an SD SPI-mode conversation (C14).
//! A separate automaton fed with the raw (MOSI, MISO) byte stream; it never
//! influences the card.

#[derive(Clone, Debug, PartialEq, Eq)]
enum Host {
    Idle,
    Cmd(Vec<u8>),
    WriteGap { multi: bool },
    WriteBlock { multi: bool, buf: Vec<u8> },
}

#[derive(Clone, Debug)]
struct Await {
    cmd: u8,
    app: bool,
    arg: u32,
    skip: u32,
    waited: u32,
}

pub struct Monitor {
    host: Host,
    awaiting: Option<Await>,
    extra_left: u32,
    expect_data_resp: bool,
    busy_phase: bool,
    card_busy: bool,
    pub crc_on: bool,
    seen_cmd0: bool,
    /// the last CMD0 was answered with "idle" (0x01)
    cmd0_acked: bool,
    seen_cmd8: bool,
    v2: bool,
    ready: bool,
    cmd58_after_ready: bool,
    prev: Option<(u8, u8)>, // (command index, its R1)
    in_multi_read: bool,
    in_multi_write: bool,
    pub commands: u64,
    pub data_blocks_from_host: u64,
    pub violations: Vec<(String, String)>,
    pos: u64,
}

fn crc7(d: &[u8]) -> u8 {
    crate::props::c19::ref_crc7(d)
}
fn crc16(d: &[u8]) -> u16 {
    crate::props::c19::ref_crc16(d)
}

impl Default for Monitor {
    fn default() -> Self {
        Self::new()
    }
}

impl Monitor {
    pub fn new() -> Monitor {
        Monitor {
            host: Host::Idle,
            awaiting: None,
            extra_left: 0,
            expect_data_resp: false,
            busy_phase: false,
            card_busy: false,
            crc_on: false,
            seen_cmd0: false,
            cmd0_acked: false,
            seen_cmd8: false,
            v2: false,
            ready: false,
            cmd58_after_ready: false,
            prev: None,
            in_multi_read: false,
            in_multi_write: false,
            commands: 0,
            data_blocks_from_host: 0,
            violations: Vec::new(),
            pos: 0,
        }
    }

    fn bad(&mut self, sig: &str, detail: String) {
        if !self.violations.iter().any(|v| v.0 == sig) {
            let p = self.pos;
            self.violations.push((sig.to_string(), format!("at bus byte {}: {}", p, detail)));
        }
    }

    fn frame(&mut self, f: &[u8]) {
        self.commands += 1;
        let cmd = f[0] & 0x3F;
        let arg = u32::from_be_bytes([f[1], f[2], f[3], f[4]]);
        if f[5] & 1 == 0 {
            self.bad("frame/end-bit-clear", format!("CMD{} frame {:02x?}", cmd, f));
        }
        if f[5] != crc7(&f[..5]) {
            self.bad("frame/bad-crc7", format!("CMD{} frame {:02x?}: CRC byte should be {:#04x}", cmd, f, crc7(&f[..5])));
        }
        let app = matches!(self.prev, Some((55, r)) if r & 0xFE == 0);
        let is_app_cmd = cmd == 41 || cmd == 23;
        if is_app_cmd && !app {
            self.bad(&format!("order/acmd{}-without-cmd55-prefix", cmd), format!("ACMD{} sent but the previous command was {:?}", cmd, self.prev));
        }
        if !self.seen_cmd0 && cmd != 0 {
            self.bad("order/first-command-not-cmd0", format!("CMD{} sent before CMD0", cmd));
        }
        if cmd != 0 && self.seen_cmd0 && !self.cmd0_acked {
            self.bad("order/command-before-reset-acknowledged", format!("CMD{} sent although the card has not answered the last CMD0 with 'idle'", cmd));
        }
        if cmd == 41 && !self.seen_cmd8 {
            self.bad("order/acmd41-before-cmd8", "ACMD41 sent before CMD8".into());
        }
        let data_cmd = matches!(cmd, 9 | 17 | 18 | 24 | 25) || (cmd == 23 && app);
        if data_cmd {
            if !self.ready {
                self.bad("order/data-command-before-identification-complete", format!("CMD{} sent before ACMD41 reported ready", cmd));
            } else if self.v2 && !self.cmd58_after_ready {
                self.bad("order/data-command-before-cmd58", format!("CMD{} sent to a version-2 card before CMD58", cmd));
            }
        }
        if self.in_multi_read && cmd != 12 {
            self.bad("data/multi-read-not-ended-by-cmd12", format!("CMD{} sent while a multi-block read is open", cmd));
        }
        if self.in_multi_write {
            self.bad("data/multi-write-not-ended-by-stop-token", format!("CMD{} sent while a multi-block write is open", cmd));
            self.in_multi_write = false;
        }
        if cmd == 12 {
            self.in_multi_read = false;
        }
        if cmd == 0 {
            self.seen_cmd0 = true;
            self.cmd0_acked = false;
            self.seen_cmd8 = false;
            self.ready = false;
            self.cmd58_after_ready = false;
            self.crc_on = false;
            self.v2 = false;
        }
        self.awaiting = Some(Await { cmd, app, arg, skip: if cmd == 12 { 1 } else { 0 }, waited: 0 });
    }

    fn response(&mut self, a: &Await, r1: u8) {
        self.prev = Some((a.cmd, r1));
        let ok = r1 & 0xFE == 0;
        match a.cmd {
            0 if r1 == 0x01 => self.cmd0_acked = true,
            8 => {
                self.seen_cmd8 = true;
                if r1 & 0x04 == 0 {
                    self.v2 = true;
                    self.extra_left = 4;
                }
            }
            58 => {
                self.extra_left = 4;
                if self.ready && ok {
                    self.cmd58_after_ready = true;
                }
            }
            13 => self.extra_left = 1,
            59 if ok => self.crc_on = a.arg & 1 != 0,
            41 if a.app && r1 == 0 => self.ready = true,
            18 if r1 == 0 => self.in_multi_read = true,
            24 if r1 == 0 => self.host = Host::WriteGap { multi: false },
            25 if r1 == 0 => {
                self.host = Host::WriteGap { multi: true };
                self.in_multi_write = true;
            }
            12 => self.busy_phase = true,
            _ => {}
        }
    }

    /// Feed one exchanged byte pair.
    pub fn feed(&mut self, mosi: u8, miso: u8) {
        self.pos += 1;
        // --- card side: responses and busy -------------------------------
        let mut consumed_miso = false;
        if self.expect_data_resp {
            self.expect_data_resp = false;
            self.busy_phase = true;
            consumed_miso = true;
        } else if self.extra_left > 0 {
            self.extra_left -= 1;
            consumed_miso = true;
        } else if let Some(mut a) = self.awaiting.take() {
            if a.skip > 0 {
                a.skip -= 1;
                self.awaiting = Some(a);
            } else if miso & 0x80 == 0 {
                self.response(&a, miso);
            } else {
                a.waited += 1;
                if a.waited <= 20_000 {
                    self.awaiting = Some(a);
                }
            }
            consumed_miso = true;
        }
        if !consumed_miso && self.busy_phase {
            if miso == 0x00 {
                self.card_busy = true;
            } else {
                self.card_busy = false;
                if miso == 0xFF {
                    self.busy_phase = false;
                }
            }
        }
        // --- host side ----------------------------------------------------
        let host = std::mem::replace(&mut self.host, Host::Idle);
        self.host = match host {
            Host::Idle => {
                if mosi & 0xC0 == 0x40 {
                    let cmd = mosi & 0x3F;
                    // a host that starts a new frame has given up waiting for the answer to the previous one
                    self.awaiting = None;
                    if (self.card_busy || (self.busy_phase && miso == 0x00)) && cmd != 0 && cmd != 12 {
                        self.bad("busy/command-while-card-signals-busy", format!("CMD{} frame started while the card holds the line low", cmd));
                    }
                    Host::Cmd(vec![mosi])
                } else {
                    if mosi != 0xFF {
                        self.bad("frame/stray-byte", format!("byte {:#04x} sent outside any frame", mosi));
                    }
                    Host::Idle
                }
            }
            Host::Cmd(mut v) => {
                v.push(mosi);
                if v.len() == 6 {
                    self.frame(&v);
                    std::mem::replace(&mut self.host, Host::Idle)
                } else {
                    Host::Cmd(v)
                }
            }
            Host::WriteGap { multi } => {
                if mosi == 0xFF {
                    Host::WriteGap { multi }
                } else if (!multi && mosi == 0xFE) || (multi && mosi == 0xFC) {
                    if self.card_busy {
                        self.bad("busy/data-block-while-card-signals-busy", "data token sent while the card holds the line low".into());
                    }
                    Host::WriteBlock { multi, buf: Vec::with_capacity(514) }
                } else if multi && mosi == 0xFD {
                    if self.card_busy {
                        self.bad("busy/stop-token-while-card-signals-busy", "stop token sent while the card holds the line low".into());
                    }
                    self.in_multi_write = false;
                    self.busy_phase = true;
                    Host::Idle
                } else if mosi & 0xC0 == 0x40 {
                    // a command instead of a data block
                    if multi {
                        // reported by frame() as multi-write-not-ended
                    } else {
                        self.bad("data/command-instead-of-data-block", format!("byte {:#04x} after CMD24", mosi));
                    }
                    Host::Cmd(vec![mosi])
                } else {
                    self.bad("data/wrong-start-token", format!("token {:#04x} where {} is due", mosi, if multi { "0xFC or 0xFD" } else { "0xFE" }));
                    Host::WriteGap { multi }
                }
            }
            Host::WriteBlock { multi, mut buf } => {
                buf.push(mosi);
                if buf.len() == 514 {
                    self.data_blocks_from_host += 1;
                    if self.crc_on && crc16(&buf[..512]).to_be_bytes() != [buf[512], buf[513]] {
                        self.bad("data/bad-crc16-with-crc-on", format!("data block CRC bytes {:02x}{:02x}, should be {:04x}", buf[512], buf[513], crc16(&buf[..512])));
                    }
                    self.expect_data_resp = true;
                    if multi {
                        Host::WriteGap { multi }
                    } else {
                        Host::Idle
                    }
                } else {
                    Host::WriteBlock { multi, buf }
                }
            }
        };
    }

    /// Does the host, judging by the responses it received, consider identification complete?
    pub fn host_saw_identification_complete(&self) -> bool {
        self.ready && (!self.v2 || self.cmd58_after_ready)
    }

    /// End of the conversation: anything left open?
    pub fn finish(&mut self) {
        if self.in_multi_read {
            self.bad("data/multi-read-not-ended-by-cmd12", "conversation ends with a multi-block read still open".into());
        }
        if self.in_multi_write {
            self.bad("data/multi-write-not-ended-by-stop-token", "conversation ends with a multi-block write still open".into());
        }
        if let Host::WriteBlock { buf, .. } = &self.host {
            let n = buf.len();
            self.bad("data/short-data-block", format!("conversation ends {} bytes into a data block", n));
        }
        if let Host::Cmd(v) = &self.host {
            let n = v.len();
            self.bad("frame/short-command-frame", format!("conversation ends {} bytes into a command frame", n));
        }
    }
}
