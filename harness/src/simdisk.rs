//! Sparse in-memory block device with a base image, an overlay of written
//! blocks, a call log, a fault plan and a call horizon.

use embedded_sdmmc::{Block, BlockCount, BlockDevice, BlockIdx};
use std::cell::RefCell;
use std::collections::{BTreeMap, HashMap};
use std::rc::Rc;
use std::sync::Arc;

pub type Blk = [u8; 512];
pub const ZERO: Blk = [0u8; 512];

/// Anything that can be read block-wise (images, crash prefixes...).
pub trait Rd {
    fn rd(&self, idx: u32) -> Blk;
}

/// Data-area region whose never-written blocks carry the *stale pattern*: 16
/// plausible live directory entries per block, pointing at in-range clusters.
#[derive(Clone, Debug)]
pub struct StaleRegion {
    pub first_block: u32,
    pub end_block: u32, // exclusive
    pub clusters: u32,
}

pub fn stale_block(idx: u32, clusters: u32) -> Blk {
    let mut b = [0u8; 512];
    for i in 0..16u32 {
        let e = &mut b[(i as usize) * 32..(i as usize) * 32 + 32];
        let tag = crate::util::mix64(((idx as u64) << 8) | i as u64);
        let name = format!("ST{:06}", tag % 1_000_000);
        e[0..8].copy_from_slice(name.as_bytes());
        e[8..11].copy_from_slice(b"ALE");
        e[11] = if i % 5 == 4 { 0x10 } else { 0x20 };
        // times: 2001-02-03 04:05:06
        let time: u16 = (4 << 11) | (5 << 5) | 3;
        let date: u16 = (21 << 9) | (2 << 5) | 3;
        e[14..16].copy_from_slice(&time.to_le_bytes());
        e[16..18].copy_from_slice(&date.to_le_bytes());
        e[22..24].copy_from_slice(&time.to_le_bytes());
        e[24..26].copy_from_slice(&date.to_le_bytes());
        let cl = 2 + ((tag >> 20) % clusters.max(1) as u64) as u32;
        e[26..28].copy_from_slice(&(cl as u16).to_le_bytes());
        e[20..22].copy_from_slice(&((cl >> 16) as u16).to_le_bytes());
        let size = if e[11] == 0x10 { 0 } else { 1 + (tag >> 40) as u32 % 4000 };
        e[28..32].copy_from_slice(&size.to_le_bytes());
    }
    b
}

/// Is this block exactly a stale-pattern block of *some* index? (cheap test:
/// recognise by the fixed name prefix/extension of its first entry.)
pub fn looks_stale_entry(e: &[u8]) -> bool {
    e.len() >= 11 && &e[0..2] == b"ST" && &e[8..11] == b"ALE" && e[2..8].iter().all(|c| c.is_ascii_digit())
}

#[derive(Default)]
pub struct BaseImage {
    pub explicit: HashMap<u32, Blk>,
    pub stale: Vec<StaleRegion>,
}

impl Rd for BaseImage {
    fn rd(&self, idx: u32) -> Blk {
        if let Some(b) = self.explicit.get(&idx) {
            return *b;
        }
        for r in &self.stale {
            if idx >= r.first_block && idx < r.end_block {
                return stale_block(idx, r.clusters);
            }
        }
        ZERO
    }
}

#[derive(Clone)]
pub struct Image {
    pub base: Arc<BaseImage>,
    pub overlay: BTreeMap<u32, Blk>,
}

impl Image {
    pub fn new(base: Arc<BaseImage>) -> Self {
        Image {
            base,
            overlay: BTreeMap::new(),
        }
    }
    pub fn put(&mut self, idx: u32, b: &Blk) {
        self.overlay.insert(idx, *b);
    }
    /// Blocks whose contents differ between two images over the same base.
    pub fn diff_blocks(&self, other: &Image) -> Vec<u32> {
        let mut out = Vec::new();
        for (k, v) in &self.overlay {
            let o = other.rd(*k);
            if &o != v {
                out.push(*k);
            }
        }
        for (k, v) in &other.overlay {
            if !self.overlay.contains_key(k) && &self.rd(*k) != v {
                out.push(*k);
            }
        }
        out.sort();
        out.dedup();
        out
    }
    pub fn hash_into(&self, h: &mut crate::util::FpHasher) {
        // Only blocks that differ from base count (a rewrite with identical
        // contents leaves the medium in the same state).
        for (k, v) in &self.overlay {
            if &self.base.rd(*k) != v {
                h.u64(*k as u64);
                h.bytes(v);
            }
        }
    }
}

impl Rd for Image {
    fn rd(&self, idx: u32) -> Blk {
        if let Some(b) = self.overlay.get(&idx) {
            return *b;
        }
        self.base.rd(idx)
    }
}

#[derive(Clone, Debug, PartialEq, Eq)]
pub enum DevErr {
    Injected,
}

#[derive(Clone)]
pub struct Call {
    pub write: bool,
    pub idx: u32,
    pub ok: bool,
    pub data: Option<Box<Blk>>,
}

pub struct DiskState {
    pub img: Image,
    pub log: Vec<Call>,
    pub logging: bool,
    /// Absolute call indices (0-based, counted over the whole life of the disk) that fail.
    pub fail_at: Vec<u64>,
    pub calls: u64,
    /// Panics with "HORIZON" when `calls` reaches this.
    pub horizon: u64,
    pub num_blocks: u32,
    /// how many injected faults have fired
    pub fired: u64,
}

/// The block device handed to the crate. Cloning shares the state.
#[derive(Clone)]
pub struct SimDisk(pub Rc<RefCell<DiskState>>);

impl core::fmt::Debug for SimDisk {
    fn fmt(&self, f: &mut core::fmt::Formatter<'_>) -> core::fmt::Result {
        write!(f, "SimDisk")
    }
}

impl SimDisk {
    pub fn new(img: Image) -> Self {
        SimDisk(Rc::new(RefCell::new(DiskState {
            img,
            log: Vec::new(),
            logging: true,
            fail_at: Vec::new(),
            calls: 0,
            horizon: u64::MAX,
            num_blocks: u32::MAX,
            fired: 0,
        })))
    }
    pub fn image(&self) -> Image {
        self.0.borrow().img.clone()
    }
    pub fn calls(&self) -> u64 {
        self.0.borrow().calls
    }
    pub fn take_log(&self) -> Vec<Call> {
        std::mem::take(&mut self.0.borrow_mut().log)
    }
    pub fn set_faults(&self, at: Vec<u64>) {
        self.0.borrow_mut().fail_at = at;
    }
    pub fn set_horizon(&self, h: u64) {
        self.0.borrow_mut().horizon = h;
    }
}

impl BlockDevice for SimDisk {
    type Error = DevErr;

    fn read(&self, blocks: &mut [Block], start: BlockIdx) -> Result<(), DevErr> {
        let mut st = self.0.borrow_mut();
        for (i, b) in blocks.iter_mut().enumerate() {
            let idx = start.0.wrapping_add(i as u32);
            let n = st.calls;
            st.calls += 1;
            if st.calls > st.horizon {
                drop(st);
                panic!("HORIZON");
            }
            let fail = st.fail_at.contains(&n);
            if st.logging {
                st.log.push(Call {
                    write: false,
                    idx,
                    ok: !fail,
                    data: None,
                });
            }
            if fail {
                st.fired += 1;
                b.contents = [0xA5; 512];
                return Err(DevErr::Injected);
            }
            b.contents = st.img.rd(idx);
        }
        Ok(())
    }

    fn write(&self, blocks: &[Block], start: BlockIdx) -> Result<(), DevErr> {
        let mut st = self.0.borrow_mut();
        for (i, b) in blocks.iter().enumerate() {
            let idx = start.0.wrapping_add(i as u32);
            let n = st.calls;
            st.calls += 1;
            if st.calls > st.horizon {
                drop(st);
                panic!("HORIZON");
            }
            let fail = st.fail_at.contains(&n);
            if st.logging {
                st.log.push(Call {
                    write: true,
                    idx,
                    ok: !fail,
                    data: Some(Box::new(b.contents)),
                });
            }
            if fail {
                st.fired += 1;
                return Err(DevErr::Injected);
            }
            st.img.put(idx, &b.contents);
        }
        Ok(())
    }

    fn num_blocks(&self) -> Result<BlockCount, DevErr> {
        Ok(BlockCount(self.0.borrow().num_blocks))
    }
}

/// Injected clock: value set by the harness before each API call.
#[derive(Clone)]
pub struct Clock(pub Rc<std::cell::Cell<embedded_sdmmc::Timestamp>>);

impl core::fmt::Debug for Clock {
    fn fmt(&self, f: &mut core::fmt::Formatter<'_>) -> core::fmt::Result {
        write!(f, "Clock")
    }
}

impl Clock {
    pub fn new() -> Self {
        Clock(Rc::new(std::cell::Cell::new(Self::at(0))))
    }
    /// Timestamp for logical step `n`: 2020-01-01 00:00:00 plus n*2 minutes... kept simple:
    /// year 2020, month = 1 + (n / 600) % 12, day 1 + (n/20)%28, hour (n % 20), minute 2*(n%30), sec even.
    pub fn at(n: u32) -> embedded_sdmmc::Timestamp {
        embedded_sdmmc::Timestamp {
            year_since_1970: 50 + ((n / 7200) % 50) as u8,
            zero_indexed_month: ((n / 600) % 12) as u8,
            zero_indexed_day: ((n / 24) % 25) as u8,
            hours: (n % 24) as u8,
            minutes: ((n * 7) % 60) as u8,
            seconds: ((n * 2) % 60) as u8 & !1,
        }
    }
    pub fn set(&self, n: u32) {
        self.0.set(Self::at(n));
    }
}

impl embedded_sdmmc::TimeSource for Clock {
    fn get_timestamp(&self) -> embedded_sdmmc::Timestamp {
        self.0.get()
    }
}
