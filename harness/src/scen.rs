//! Shared scenario material: the volume family, the pre-populated tree and
//! device assembly (DESIGN.md section 4).

use crate::mkfs::{self, short_entry, Dir, FsInfo, Geom, Mk, FMT_DATE, FMT_TIME};
use crate::simdisk::{BaseImage, ZERO};
use crate::util::le32;

#[derive(Clone, Debug)]
pub struct TreeOpts {
    /// populate the standard tree (OLD.DAT, RO.DAT, EMPTY.DAT, SUB/, SUB/DEEP/, LFN run, deleted slot, label)
    pub tree: bool,
    /// number of free slots left in the last cluster of SUB
    pub sub_free_slots: usize,
    /// pad the FAT16 root with empty files until this many slots remain free (None = no padding)
    pub root_free_slots: Option<usize>,
    /// number of free clusters to leave (None = no ballast)
    pub free: Option<usize>,
    pub fsinfo: FsInfo,
    /// with `free`: leave the *highest* clusters of the volume free instead of two low ones and the last
    pub free_top: bool,
}

impl Default for TreeOpts {
    fn default() -> Self {
        TreeOpts {
            tree: true,
            sub_free_slots: 1,
            root_free_slots: None,
            free: None,
            fsinfo: FsInfo::Correct,
            free_top: false,
        }
    }
}

/// Clusters used by the standard tree (relative numbering works for every geometry with >= 40 clusters).
pub const OLD_CHAIN: [u32; 3] = [10, 7, 12];
pub const SUB_CHAIN: [u32; 2] = [3, 9];

pub fn populate(mk: &mut Mk, o: &TreeOpts) {
    let root = mk.root();
    let cb = mk.g.cluster_bytes();
    // on FAT32 with root at cluster != 2 the fixed cluster numbers below stay free of the root
    let rc = if mk.g.fat32 { mk.g.root_cluster } else { 0 };
    let fix = |c: u32| if c == rc { c + 20 } else { c };
    if o.tree {
        let label = short_entry(b"VERIFVOL   ", 0x08, 0, 0, FMT_DATE, FMT_TIME, FMT_DATE, FMT_TIME);
        mk.put_slot(root, &label);
        let old: Vec<u32> = OLD_CHAIN.iter().map(|&c| fix(c)).collect();
        let old_slot = mk.file(root, "OLD.DAT", 0x20, &old, 2 * cb + cb / 2, 1);
        // created and last written at different times (2018-12-09 19:22:34 / 2019-03-11 08:05:02)
        mk.patch_slot(root, old_slot, |e| {
            e[22..24].copy_from_slice(&(((8u16) << 11) | (5 << 5) | 1).to_le_bytes());
            e[24..26].copy_from_slice(&((((2019 - 1980) as u16) << 9) | (3 << 5) | 11).to_le_bytes());
        });
        if !mk.g.fat32 {
            // on FAT16 bytes 20..22 of an entry are not a cluster field (other systems keep an extended-attribute
            // handle there): a non-zero value must not influence where the file is found
            mk.patch_slot(root, old_slot, |e| e[20..22].copy_from_slice(&[0x01, 0x00]));
        }
        // the very first data cluster (cluster 2) belongs to RO.DAT on FAT16 (it lies directly behind the root
        // directory region, and the rest of RO.DAT's block is zero) and to ALGN.DAT on a FAT32 volume whose root is
        // elsewhere (deleting or truncating ALGN.DAT must release cluster 2 like any other)
        let (ro_first, algn_first) = if mk.g.fat32 { (fix(15), fix(2)) } else { (fix(2), fix(15)) };
        mk.file(root, "RO.DAT", 0x21, &[ro_first], 100, 2);
        // hidden + archive: hidden and system files are ordinary files to this library
        mk.file(root, "EMPTY.DAT", 0x22, &[], 0, 3);
        // exactly three clusters (cluster-aligned length), chain not in ascending order
        let algn_slot = mk.file(root, "ALGN.DAT", 0x20, &[algn_first, fix(14), fix(16)], 3 * cb, 6);
        // fields other systems fill in and this library does not interpret: case flags, creation-time tenths, access date
        mk.patch_slot(root, algn_slot, |e| {
            e[12] = 0x18;
            e[13] = 150;
            e[18..20].copy_from_slice(&FMT_DATE.to_le_bytes());
        });
        // a deleted slot
        let mut del = short_entry(&mkfs::n11("DELETED.TXT"), 0x20, 0, 0, FMT_DATE, FMT_TIME, FMT_DATE, FMT_TIME);
        del[0] = 0xE5;
        mk.put_slot(root, &del);
        // long-name run + its short entry
        let short = mkfs::n11("LONGFI~1.TXT");
        let long: Vec<u16> = "long file name.txt".encode_utf16().collect();
        for s in mkfs::lfn_slots(&long, mkfs::lfn_checksum(&short)) {
            mk.put_slot(root, &s);
        }
        mk.file(root, "LONGFI~1.TXT", 0x20, &[fix(8)], 20, 4);
        // SUB: two clusters, fragmented, first one full
        let subc: Vec<u32> = SUB_CHAIN.iter().map(|&c| fix(c)).collect();
        let sub = mk.mkdir(root, "SUB", &subc);
        let deep = mk.mkdir(sub, "DEEP", &[fix(4)]);
        mk.file(deep, "IN.DAT", 0x20, &[fix(6)], 10, 5);
        if mk.g.fat32 && mk.g.clusters >= 65_540 {
            // a chain link whose value is a multiple of 65536 (low half-word zero, yet not a free entry)
            mk.file(deep, "HIGH.DAT", 0x20, &[65_535, 65_536], cb + 10, 8);
        }
        let per = 16 * mk.g.spc as usize;
        let total = per * 2;
        let mut i = 0;
        while mk.next_slot(sub) + o.sub_free_slots < total {
            if mk.next_slot(sub) == 15 {
                // the last slot of the first directory block holds a deletable file with contents
                mk.file(sub, "B.DAT", 0x24, &[fix(17)], 300, 7);
                continue;
            }
            if mk.next_slot(sub) == 5 {
                // read-only + hidden + system + archive: protected exactly like a plain read-only file
                mk.file(sub, "E.BIN", 0x27, &[fix(18)], 40, 9);
                continue;
            }
            mk.file(sub, &format!("P{:03}.BIN", i), 0x20, &[], 0, 0);
            i += 1;
        }
    }
    if let Some(k) = o.root_free_slots {
        if !mk.g.fat32 {
            let mut i = 0;
            // one slot is reserved for the ballast file when ballast is requested
            let reserve = if o.free.is_some() { 1 } else { 0 };
            while mk.next_slot(root) + k + reserve < mk.g.root_entries as usize {
                mk.file(root, &format!("PAD{:03}.BIN", i), 0x20, &[], 0, 0);
                i += 1;
            }
        }
    }
    if let Some(f) = o.free {
        let last = mk.g.clusters + 1;
        let free_now = mk.free_clusters();
        let mid: Vec<u32> = free_now.iter().cloned().filter(|&c| c >= 20 && c < last).take(2).collect();
        let keep: Vec<u32> = if o.free_top {
            (0..f as u32).map(|i| last - i).rev().collect()
        } else { match f {
            0 => vec![],
            1 => vec![last],
            2 => vec![mid[0], last],
            3 => vec![mid[0], mid[1], last],
            n => {
                let mut v: Vec<u32> = free_now.iter().cloned().filter(|&c| c >= 20 && c < last).take(n - 1).collect();
                v.push(last);
                v
            }
        } };
        mk.ballast(root, &keep);
    }
}

pub fn build(g: Geom, o: &TreeOpts) -> BaseImage {
    let mut mk = Mk::new(g);
    populate(&mut mk, o);
    mk.finish(o.fsinfo)
}

/// Put a "victim" partition directly behind the (single) volume of `img` in MBR slot `slot`.
pub fn add_victim(img: &mut BaseImage, g: &Geom, slot: usize) {
    let mbr = img.explicit.get_mut(&0).unwrap();
    let p = 446 + 16 * slot;
    mbr[p + 4] = 0x83;
    crate::util::put32(mbr, p + 8, g.part_end());
    crate::util::put32(mbr, p + 12, 4096);
}

/// Merge several single-volume images into one device (partition tables are merged).
pub fn combine(parts: Vec<BaseImage>) -> BaseImage {
    let mut out = BaseImage::default();
    let mut mbr = ZERO;
    for p in parts {
        let m = p.explicit.get(&0).cloned().unwrap_or(ZERO);
        for slot in 0..4 {
            let o = 446 + 16 * slot;
            if m[o + 4] != 0 || le32(&m, o + 12) != 0 {
                assert!(mbr[o + 4] == 0, "partition slot {} used twice", slot);
                mbr[o..o + 16].copy_from_slice(&m[o..o + 16]);
            }
        }
        for (k, v) in p.explicit {
            if k != 0 {
                assert!(out.explicit.insert(k, v).is_none(), "overlapping images at block {}", k);
            }
        }
        out.stale.extend(p.stale);
    }
    mbr[510] = 0x55;
    mbr[511] = 0xAA;
    out.explicit.insert(0, mbr);
    out
}

// ---- the volume family ------------------------------------------------------

pub fn g_v16a() -> Geom {
    // 4085 clusters: last FAT sector has 9 slack entries
    Geom::fat16(4085, 1)
}
pub fn g_v16b() -> Geom {
    // 4094 clusters: FAT exactly fills its last sector; 1 FAT; 2 blocks per cluster; 40-entry root
    let mut g = Geom::fat16(4094, 2);
    g.nfats = 1;
    // 40 entries: the last block of the root directory is only half used
    g.root_entries = 40;
    g.lba_start = 63;
    g.label = *b"           ";
    g
}
pub fn g_v32a() -> Geom {
    // 65552 clusters: the last clusters have numbers above 65535 (the high 16 bits of start clusters matter);
    // blank label in the boot sector, so get_root_volume_label has to search the root directory
    let mut g = Geom::fat32(65552, 1);
    g.label = *b"           ";
    g
}
pub fn g_v32b() -> Geom {
    // four blocks per cluster: directory clusters span several blocks
    let mut g = Geom::fat32(65600, 4);
    g.nfats = 1;
    g.root_cluster = 5;
    g.fat_size = g.min_fat_size() + 1;
    g.lba_start = 2048;
    g.hi_nibble = true;
    // the information sector is not directly behind the boot sector
    g.fsinfo_block = 3;
    g
}

pub fn dir_of(_mk: &Mk, d: Dir) -> Dir {
    d
}
