//! Independent FAT16/FAT32 reader and checker, written from the Microsoft FAT
//! specification. Never calls into the crate under test.

use crate::simdisk::{Image, Rd};
use crate::util::{le16, le32};
use std::collections::{BTreeMap, BTreeSet};

#[derive(Clone, Debug)]
pub struct Vol {
    pub fat32: bool,
    pub lba: u32,
    pub part_blocks: u32,
    pub spc: u32,
    pub reserved: u32,
    pub nfats: u32,
    pub fatsz: u32,
    pub root_entries: u32,
    pub root_start: u32, // relative to lba
    pub root_blocks: u32,
    pub first_data: u32, // relative to lba
    pub clusters: u32,
    pub total: u32,
    pub root_cluster: u32,
    pub fsinfo: u32, // relative
}

impl Vol {
    pub fn cluster_block(&self, c: u32) -> u32 {
        self.lba + self.first_data + (c - 2) * self.spc
    }
    pub fn cb(&self) -> u32 {
        self.spc * 512
    }
    pub fn in_range(&self, c: u32) -> bool {
        c >= 2 && c < self.clusters + 2
    }
    pub fn fat_block(&self, copy: u32, sector: u32) -> u32 {
        self.lba + self.reserved + copy * self.fatsz + sector
    }
    pub fn data_end(&self) -> u32 {
        self.lba + self.first_data + self.clusters * self.spc
    }
    pub fn is_eoc(&self, v: u32) -> bool {
        if self.fat32 {
            v >= 0x0FFF_FFF8
        } else {
            v >= 0xFFF8
        }
    }
    pub fn is_bad(&self, v: u32) -> bool {
        if self.fat32 {
            v == 0x0FFF_FFF7
        } else {
            v == 0xFFF7
        }
    }
}

pub fn locate(img: &dyn Rd, slot: usize) -> Result<Vol, String> {
    let mbr = img.rd(0);
    if mbr[510] != 0x55 || mbr[511] != 0xAA {
        return Err("no MBR signature".into());
    }
    let p = 446 + 16 * slot;
    let ty = mbr[p + 4];
    if ![0x04u8, 0x06, 0x0E, 0x0B, 0x0C].contains(&ty) {
        return Err(format!("partition type {:#x}", ty));
    }
    let lba = le32(&mbr, p + 8);
    let part_blocks = le32(&mbr, p + 12);
    locate_at(img, lba, part_blocks)
}

pub fn locate_at(img: &dyn Rd, lba: u32, part_blocks: u32) -> Result<Vol, String> {
    let bs = img.rd(lba);
    if bs[510] != 0x55 || bs[511] != 0xAA {
        return Err("no boot signature".into());
    }
    let bps = le16(&bs, 11) as u32;
    if bps != 512 {
        return Err(format!("bytes per sector {}", bps));
    }
    let spc = bs[13] as u32;
    if spc == 0 || !spc.is_power_of_two() {
        return Err(format!("sectors per cluster {}", spc));
    }
    let reserved = le16(&bs, 14) as u32;
    let nfats = bs[16] as u32;
    let root_entries = le16(&bs, 17) as u32;
    let tot16 = le16(&bs, 19) as u32;
    let fatsz16 = le16(&bs, 22) as u32;
    let tot32 = le32(&bs, 32);
    let fatsz = if fatsz16 != 0 { fatsz16 } else { le32(&bs, 36) };
    let total = if tot16 != 0 { tot16 } else { tot32 };
    let root_blocks = (root_entries * 32 + 511) / 512;
    let meta = reserved as u64 + nfats as u64 * fatsz as u64 + root_blocks as u64;
    if reserved == 0 || nfats == 0 || fatsz == 0 || meta >= total as u64 {
        return Err("inconsistent BPB".into());
    }
    let data = total - meta as u32;
    let clusters = data / spc;
    if clusters < 4085 {
        return Err("FAT12".into());
    }
    let fat32 = clusters >= 65525;
    Ok(Vol {
        fat32,
        lba,
        part_blocks,
        spc,
        reserved,
        nfats,
        fatsz,
        root_entries,
        root_start: reserved + nfats * fatsz,
        root_blocks,
        first_data: meta as u32,
        clusters,
        total,
        root_cluster: if fat32 { le32(&bs, 44) } else { 0 },
        fsinfo: if fat32 { le16(&bs, 48) as u32 } else { 0 },
    })
}

/// Raw FAT entries 0..clusters+2 of one copy (FAT32: all 32 bits).
pub fn read_fat(img: &dyn Rd, v: &Vol, copy: u32) -> Vec<u32> {
    let n = v.clusters as usize + 2;
    let mut out = Vec::with_capacity(n);
    let per = if v.fat32 { 128 } else { 256 };
    let sectors = n.div_ceil(per);
    for s in 0..sectors {
        let b = img.rd(v.fat_block(copy, s as u32));
        for i in 0..per {
            if out.len() == n {
                break;
            }
            out.push(if v.fat32 {
                le32(&b, i * 4)
            } else {
                le16(&b, i * 2) as u32
            });
        }
    }
    out
}

/// Base FAT decoded once per base image, patched by overlay blocks.
pub struct FatBase {
    pub raw: Vec<u32>,
}

pub fn read_fat_patched(img: &Image, v: &Vol, copy: u32, base: &FatBase) -> Vec<u32> {
    let mut out = base.raw.clone();
    let per = if v.fat32 { 128 } else { 256 };
    let lo = v.fat_block(copy, 0);
    let hi = lo + v.fatsz;
    for (blk, data) in img.overlay.range(lo..hi) {
        let s = (blk - lo) as usize;
        for i in 0..per {
            let n = s * per + i;
            if n >= out.len() {
                break;
            }
            out[n] = if v.fat32 {
                le32(data, i * 4)
            } else {
                le16(data, i * 2) as u32
            };
        }
    }
    out
}

#[inline]
pub fn low(v: &Vol, e: u32) -> u32 {
    if v.fat32 {
        e & 0x0FFF_FFFF
    } else {
        e
    }
}

#[derive(Clone, Debug, PartialEq, Eq)]
pub enum ChainErr {
    StartOutOfRange(u32),
    Free(u32),
    Bad(u32),
    Reserved(u32, u32),
    Cycle(u32),
}

impl ChainErr {
    pub fn kind(&self) -> &'static str {
        match self {
            ChainErr::StartOutOfRange(_) => "start-out-of-range",
            ChainErr::Free(_) => "passes-through-free-entry",
            ChainErr::Bad(_) => "passes-through-bad-entry",
            ChainErr::Reserved(_, _) => "link-out-of-range",
            ChainErr::Cycle(_) => "cycle",
        }
    }
}

/// Follow a chain. Returns the clusters visited and, if the chain is not a
/// well-formed EOC-terminated list, what is wrong.
pub fn chain(fat: &[u32], v: &Vol, start: u32) -> (Vec<u32>, Option<ChainErr>) {
    let mut out = Vec::new();
    if !v.in_range(start) {
        return (out, Some(ChainErr::StartOutOfRange(start)));
    }
    let mut c = start;
    loop {
        // a chain longer than the number of clusters must have revisited one
        if out.len() as u32 > v.clusters {
            // find the first repeated cluster for the report
            let mut seen = BTreeSet::new();
            let rep = out.iter().find(|x| !seen.insert(**x)).cloned().unwrap_or(c);
            let cut = out.iter().position(|x| *x == rep).unwrap_or(0);
            let second = out.iter().skip(cut + 1).position(|x| *x == rep).map(|p| p + cut + 1).unwrap_or(out.len());
            out.truncate(second);
            return (out, Some(ChainErr::Cycle(rep)));
        }
        let e = low(v, fat[c as usize]);
        if e == 0 {
            return (out, Some(ChainErr::Free(c)));
        }
        out.push(c);
        if v.is_eoc(e) {
            return (out, None);
        }
        if v.is_bad(e) {
            return (out, Some(ChainErr::Bad(c)));
        }
        if !v.in_range(e) {
            return (out, Some(ChainErr::Reserved(c, e)));
        }
        c = e;
    }
}

#[derive(Clone, Copy, Debug, PartialEq, Eq, Hash, PartialOrd, Ord)]
pub enum DirLoc {
    Root16,
    Chain(u32),
}

#[derive(Clone, Debug)]
pub struct Slot {
    pub raw: [u8; 32],
    pub block: u32,
    pub off: usize,
}

pub fn root_loc(v: &Vol) -> DirLoc {
    if v.fat32 {
        DirLoc::Chain(v.root_cluster)
    } else {
        DirLoc::Root16
    }
}

/// All 32-byte slots of a directory, including those past the end marker.
pub fn dir_slots(img: &dyn Rd, v: &Vol, fat: &[u32], loc: DirLoc) -> (Vec<Slot>, Option<ChainErr>, Vec<u32>) {
    let mut out = Vec::new();
    let mut push_block = |b: u32, out: &mut Vec<Slot>| {
        let d = img.rd(b);
        for i in 0..16 {
            let mut raw = [0u8; 32];
            raw.copy_from_slice(&d[i * 32..i * 32 + 32]);
            out.push(Slot {
                raw,
                block: b,
                off: i * 32,
            });
        }
    };
    match loc {
        DirLoc::Root16 => {
            for i in 0..v.root_blocks {
                push_block(v.lba + v.root_start + i, &mut out);
            }
            (out, None, vec![])
        }
        DirLoc::Chain(c) => {
            let (ch, err) = chain(fat, v, c);
            for &cl in &ch {
                for i in 0..v.spc {
                    push_block(v.cluster_block(cl) + i, &mut out);
                }
            }
            (out, err, ch)
        }
    }
}

#[derive(Clone, Debug, PartialEq, Eq)]
pub struct Ent {
    pub name: [u8; 11],
    pub attr: u8,
    pub cluster: u32,
    pub size: u32,
    pub cdate: u16,
    pub ctime: u16,
    pub wdate: u16,
    pub wtime: u16,
    pub block: u32,
    pub off: usize,
    pub slot: usize,
    pub raw: [u8; 32],
    /// long name by the specification's matching rule
    pub lfn: Option<Vec<u16>>,
    /// only deleted slots separate an otherwise matching run from this entry
    pub lfn_ambiguous: Option<Vec<u16>>,
}

impl Ent {
    pub fn is_dir(&self) -> bool {
        self.attr & 0x10 != 0
    }
    pub fn is_label(&self) -> bool {
        self.attr & 0x08 != 0 && self.attr & 0x0F != 0x0F
    }
    pub fn is_dot(&self) -> bool {
        &self.name == b".          " || &self.name == b"..         "
    }
    pub fn name_str(&self) -> String {
        name_to_string(&self.name)
    }
}

pub fn name_to_string(n: &[u8; 11]) -> String {
    let mut s = String::new();
    for &c in n[..8].iter() {
        if c != b' ' {
            s.push(c as char);
        }
    }
    let ext: String = n[8..].iter().filter(|&&c| c != b' ').map(|&c| c as char).collect();
    if !ext.is_empty() {
        s.push('.');
        s.push_str(&ext);
    }
    s
}

pub fn is_lfn_slot(raw: &[u8; 32]) -> bool {
    raw[11] & 0x3F == 0x0F
}

pub fn lfn_units(raw: &[u8; 32]) -> [u16; 13] {
    const POS: [usize; 13] = [1, 3, 5, 7, 9, 14, 16, 18, 20, 22, 24, 28, 30];
    let mut u = [0u16; 13];
    for (i, p) in POS.iter().enumerate() {
        u[i] = le16(raw, *p);
    }
    u
}

pub fn sfn_checksum(name: &[u8]) -> u8 {
    let mut sum = 0u8;
    for &b in &name[..11] {
        sum = ((sum & 1) << 7).wrapping_add(sum >> 1).wrapping_add(b);
    }
    sum
}

/// Specification LFN matcher: looks backwards from the short entry at index
/// `i` of `slots`. `skip_deleted`: tolerate deleted slots between run and entry.
fn match_lfn(slots: &[Slot], i: usize, skip_deleted: bool) -> Option<Vec<u16>> {
    match_lfn_opt(slots, i, skip_deleted, true)
}

/// `strict_csum = false`: only the first (start-flagged) fragment's checksum is compared.
pub fn match_lfn_opt(slots: &[Slot], i: usize, skip_deleted: bool, strict_csum: bool) -> Option<Vec<u16>> {
    let csum = sfn_checksum(&slots[i].raw);
    let mut j = i;
    let mut frags: Vec<[u16; 13]> = Vec::new();
    let mut expect = 1u8;
    loop {
        if skip_deleted {
            // deleted slots are treated as transparent anywhere around the run
            while j > 0 && slots[j - 1].raw[0] == 0xE5 {
                j -= 1;
            }
        }
        if j == 0 {
            return None;
        }
        let s = &slots[j - 1].raw;
        if s[0] == 0xE5 || s[0] == 0x00 || !is_lfn_slot(s) {
            return None;
        }
        let seq = s[0] & 0x3F;
        let last = s[0] & 0x40 != 0;
        if s[0] & 0x80 != 0 || seq != expect || seq == 0 || seq > 20 {
            return None;
        }
        if s[13] != csum && (strict_csum || last) {
            return None;
        }
        frags.push(lfn_units(s));
        if last {
            break;
        }
        expect += 1;
        j -= 1;
    }
    let mut name = Vec::new();
    for f in frags {
        for &u in f.iter() {
            if u == 0 {
                break;
            }
            name.push(u);
        }
    }
    Some(name)
}

/// Live short entries (incl. volume labels, dot entries) up to the end marker.
pub fn live_entries(slots: &[Slot], fat32: bool) -> Vec<Ent> {
    let mut out = Vec::new();
    for (i, s) in slots.iter().enumerate() {
        let r = &s.raw;
        if r[0] == 0x00 {
            break;
        }
        if r[0] == 0xE5 || is_lfn_slot(r) {
            continue;
        }
        let mut name = [0u8; 11];
        name.copy_from_slice(&r[0..11]);
        let cl_lo = le16(r, 26) as u32;
        let cl_hi = le16(r, 20) as u32;
        out.push(Ent {
            name,
            attr: r[11],
            cluster: if fat32 { (cl_hi << 16) | cl_lo } else { cl_lo },
            size: le32(r, 28),
            ctime: le16(r, 14),
            cdate: le16(r, 16),
            wtime: le16(r, 22),
            wdate: le16(r, 24),
            block: s.block,
            off: s.off,
            slot: i,
            raw: *r,
            lfn: match_lfn(slots, i, false),
            lfn_ambiguous: match_lfn(slots, i, true),
        });
    }
    out
}

/// Index of the first end marker, if any.
pub fn end_marker(slots: &[Slot]) -> Option<usize> {
    slots.iter().position(|s| s.raw[0] == 0x00)
}

#[derive(Clone, Debug)]
pub struct Node {
    pub path: String,
    pub parent: Option<usize>,
    pub ent: Ent,
    pub loc_of_parent: DirLoc,
    pub chain: Vec<u32>,
    pub chain_err: Option<ChainErr>,
    pub is_dir: bool,
}

#[derive(Clone, Debug, PartialEq, Eq, PartialOrd, Ord)]
pub struct Problem {
    pub kind: String,
    pub detail: String,
}

pub struct Tree {
    pub nodes: Vec<Node>,
    pub problems: Vec<Problem>,
    /// cluster -> index+1 into `owner_names` (0 = referenced by nothing)
    pub owner_idx: Vec<u32>,
    pub owner_names: Vec<String>,
    /// directories: path -> (loc, slots)
    pub dirs: BTreeMap<String, (DirLoc, Vec<Slot>)>,
}

impl Tree {
    pub fn owner_of(&self, c: u32) -> Option<&String> {
        match self.owner_idx.get(c as usize) {
            Some(&i) if i > 0 => self.owner_names.get(i as usize - 1),
            _ => None,
        }
    }
    fn own(&mut self, c: u32, who: &str) -> Option<String> {
        let cur = self.owner_idx[c as usize];
        if cur > 0 {
            let o = &self.owner_names[cur as usize - 1];
            return if o == who { None } else { Some(o.clone()) };
        }
        let idx = match self.owner_names.iter().rposition(|n| n == who) {
            Some(i) => i,
            None => {
                self.owner_names.push(who.to_string());
                self.owner_names.len() - 1
            }
        };
        self.owner_idx[c as usize] = idx as u32 + 1;
        None
    }
    pub fn find(&self, path: &str) -> Option<&Node> {
        self.nodes.iter().find(|n| n.path == path)
    }
    pub fn has(&self, kind: &str) -> bool {
        self.problems.iter().any(|p| p.kind == kind)
    }
}

fn prob(t: &mut Tree, kind: &str, detail: String) {
    t.problems.push(Problem {
        kind: kind.to_string(),
        detail,
    });
}

/// Walk the whole tree and evaluate the structural predicates.
pub fn walk(img: &dyn Rd, v: &Vol, fat: &[u32]) -> Tree {
    let mut t = Tree {
        nodes: Vec::new(),
        problems: Vec::new(),
        owner_idx: vec![0u32; v.clusters as usize + 2],
        owner_names: Vec::new(),
        dirs: BTreeMap::new(),
    };
    let root = root_loc(v);
    if let DirLoc::Chain(c) = root {
        let (ch, err) = chain(fat, v, c);
        if let Some(e) = err {
            prob(&mut t, &format!("chain/{}", e.kind()), format!("root directory: {:?}", e));
        }
        for cl in ch {
            t.own(cl, "/");
        }
    }
    let mut visited = BTreeSet::new();
    walk_dir(img, v, fat, &mut t, root, "".to_string(), None, root, 0, &mut visited);
    t
}

#[allow(clippy::too_many_arguments)]
fn walk_dir(
    img: &dyn Rd,
    v: &Vol,
    fat: &[u32],
    t: &mut Tree,
    loc: DirLoc,
    path: String,
    parent_idx: Option<usize>,
    parent_loc: DirLoc,
    depth: usize,
    visited: &mut BTreeSet<DirLoc>,
) {
    let disp = if path.is_empty() { "/".to_string() } else { path.clone() };
    if !visited.insert(loc) {
        prob(t, "dir/loop", format!("directory {} reached twice", disp));
        return;
    }
    if depth > 6 {
        prob(t, "dir/too-deep", disp);
        return;
    }
    let (slots, _err, _ch) = dir_slots(img, v, fat, loc);
    let ents = live_entries(&slots, v.fat32);
    // nothing allocated after the end marker
    if let Some(e) = end_marker(&slots) {
        for (i, s) in slots.iter().enumerate().skip(e + 1) {
            if s.raw[0] != 0x00 && s.raw[0] != 0xE5 {
                prob(
                    t,
                    "dir/entry-after-end-marker",
                    format!("{}: slot {} after end marker at {}", disp, i, e),
                );
                break;
            }
        }
    }
    // stale pattern exposure
    for e in &ents {
        if crate::simdisk::looks_stale_entry(&e.raw) {
            prob(t, "dir/stale-entries-exposed", format!("{}: slot {}", disp, e.slot));
            break;
        }
    }
    // unique names
    let mut names = BTreeSet::new();
    for e in &ents {
        if e.is_label() {
            continue;
        }
        if !names.insert(e.name) {
            prob(t, "dir/duplicate-name", format!("{}: {}", disp, e.name_str()));
        }
    }
    // dot entries for sub-directories
    if depth > 0 {
        let self_cluster = match loc {
            DirLoc::Chain(c) => c,
            DirLoc::Root16 => 0,
        };
        let d0 = slots.first().map(|s| s.raw);
        let d1 = slots.get(1).map(|s| s.raw);
        let okdot = |r: Option<[u8; 32]>, name: &[u8; 11]| -> Option<u32> {
            let r = r?;
            if &r[0..11] != name || r[11] & 0x10 == 0 {
                return None;
            }
            let lo = le16(&r, 26) as u32;
            let hi = le16(&r, 20) as u32;
            Some(if v.fat32 { (hi << 16) | lo } else { lo })
        };
        match okdot(d0, b".          ") {
            Some(c) if c == self_cluster => {}
            other => prob(t, "dir/bad-dot", format!("{}: '.' is {:?}, expected {}", disp, other, self_cluster)),
        }
        let want_parent: Vec<u32> = match parent_loc {
            DirLoc::Root16 => vec![0],
            DirLoc::Chain(c) if v.fat32 && c == v.root_cluster && depth == 1 => vec![0, c],
            DirLoc::Chain(c) => vec![c],
        };
        match okdot(d1, b"..         ") {
            Some(c) if want_parent.contains(&c) => {}
            other => prob(
                t,
                "dir/bad-dotdot",
                format!("{}: '..' is {:?}, expected one of {:?}", disp, other, want_parent),
            ),
        }
    }
    t.dirs.insert(disp.clone(), (loc, slots));
    for e in ents {
        if e.is_label() || e.is_dot() {
            continue;
        }
        if t.nodes.len() >= 5000 {
            // no tree the harness builds or the library can produce within a bounded history comes near this; a medium
            // that exposes garbage as directories can describe millions of pseudo-entries
            if !t.problems.iter().any(|p| p.kind == "walk/more-than-5000-entries") {
                prob(t, "walk/more-than-5000-entries", disp.clone());
            }
            return;
        }
        let p = format!("{}/{}", path, e.name_str());
        let is_dir = e.is_dir();
        let (ch, err) = if e.cluster == 0 && !is_dir {
            (vec![], None)
        } else {
            chain(fat, v, e.cluster)
        };
        if e.cluster == 0 && !is_dir {
            if e.size != 0 {
                prob(t, "file/size-without-cluster", format!("{} size {}", p, e.size));
            }
        } else {
            if let Some(er) = &err {
                let k = if is_dir && e.cluster == 0 {
                    "subdir/no-cluster".to_string()
                } else {
                    format!("chain/{}", er.kind())
                };
                prob(t, &k, format!("{}: {:?}", p, er));
            }
            if !is_dir && (ch.len() as u64) * (v.cb() as u64) < e.size as u64 {
                prob(
                    t,
                    "chain/too-short-for-size",
                    format!("{}: {} clusters for {} bytes", p, ch.len(), e.size),
                );
            }
            let mut shared: Option<(u32, String)> = None;
            for &cl in &ch {
                if let Some(o) = t.own(cl, &p) {
                    if shared.is_none() {
                        shared = Some((cl, o));
                    }
                }
            }
            if let Some((cl, o)) = shared {
                prob(t, "chain/shared-cluster", format!("cluster {} in {} and {}", cl, o, p));
            }
        }
        let idx = t.nodes.len();
        t.nodes.push(Node {
            path: p.clone(),
            parent: parent_idx,
            ent: e.clone(),
            loc_of_parent: loc,
            chain: ch.clone(),
            chain_err: err.clone(),
            is_dir,
        });
        // (an exposed stale-pattern slot is reported above; what it "points to" is more of the same pattern, and following
        // it would walk millions of pseudo-directories)
        if is_dir && v.in_range(e.cluster) && !crate::simdisk::looks_stale_entry(&e.raw) {
            walk_dir(img, v, fat, t, DirLoc::Chain(e.cluster), p, Some(idx), loc, depth + 1, visited);
        }
    }
}

/// File bytes through the chain (min(size, chain capacity)).
pub fn file_bytes(img: &dyn Rd, v: &Vol, n: &Node) -> Vec<u8> {
    read_chain_bytes(img, v, &n.chain, n.ent.size)
}

pub fn read_chain_bytes(img: &dyn Rd, v: &Vol, chain: &[u32], size: u32) -> Vec<u8> {
    let mut out = Vec::with_capacity(size as usize);
    'o: for &c in chain {
        for i in 0..v.spc {
            if out.len() >= size as usize {
                break 'o;
            }
            let b = img.rd(v.cluster_block(c) + i);
            let take = (size as usize - out.len()).min(512);
            out.extend_from_slice(&b[..take]);
        }
    }
    out
}

/// Clusters whose FAT entry is non-free (low bits != 0), in [2, clusters+2).
pub fn used_clusters(fat: &[u32], v: &Vol) -> BTreeSet<u32> {
    (2..v.clusters + 2).filter(|&c| low(v, fat[c as usize]) != 0).collect()
}

pub fn count_free(fat: &[u32], v: &Vol) -> u32 {
    (2..v.clusters + 2).filter(|&c| low(v, fat[c as usize]) == 0).count() as u32
}

/// FAT timestamp decode by the specification: returns (y, m, d, h, mi, s).
pub fn decode_ts(date: u16, time: u16) -> (u32, u32, u32, u32, u32, u32) {
    (
        1980 + (date >> 9) as u32,
        ((date >> 5) & 0xF) as u32,
        (date & 0x1F) as u32,
        (time >> 11) as u32,
        ((time >> 5) & 0x3F) as u32,
        ((time & 0x1F) * 2) as u32,
    )
}

pub fn encode_ts(y: u32, m: u32, d: u32, h: u32, mi: u32, s: u32) -> (u16, u16) {
    (
        (((y - 1980) << 9) | (m << 5) | d) as u16,
        ((h << 11) | (mi << 5) | (s / 2)) as u16,
    )
}
