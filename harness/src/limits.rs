//! C08 — handles, open-object limits and the re-entrancy lock: an explorer that
//! is generic over the three limit parameters, with its own small model.

use crate::mkfs::{FsInfo, Geom, Mk};
use crate::scen;
use crate::simdisk::{BaseImage, Clock, Image, SimDisk};
use crate::util::{catch_quiet, Caught, Fp, FpHasher};
use crate::world::{map_err, E};
use embedded_sdmmc::{LfnBuffer, Mode, RawDirectory, RawFile, RawVolume, VolumeIdx, VolumeManager};
use std::collections::{BTreeMap, HashSet};
use std::sync::Arc;

#[derive(Clone, Copy, Debug, PartialEq, Eq, Hash, PartialOrd, Ord)]
pub enum LOp {
    OpenVol(u8),
    CloseVol(u8),
    OpenRoot(u8),
    OpenSub(u8),
    OpenDot(u8),
    CloseDir(u8),
    OpenFile(u8, u8),
    CloseFile(u8),
}

pub const FNAMES: [&str; 10] = ["F0.TXT", "F1.TXT", "F2.TXT", "F3.TXT", "F4.TXT", "F5.TXT", "F6.TXT", "F7.TXT", "F8.TXT", "F9.TXT"];

/// Four small FAT16 volumes on one device, each with README.TXT and SUB/.
pub fn four_partition_device() -> BaseImage {
    let mut parts = Vec::new();
    let mut lba = 8u32;
    for slot in 0..4 {
        let mut g: Geom = scen::g_v16a();
        g.part_slot = slot;
        g.lba_start = lba;
        g.root_entries = 64;
        lba = g.part_end() + 3;
        let mut mk = Mk::new(g);
        let root = mk.root();
        mk.file(root, "README.TXT", 0x20, &[5], 100, 9);
        let sub = mk.mkdir(root, "SUB", &[6]);
        mk.file(sub, "INNER.TXT", 0x20, &[7], 10, 10);
        parts.push(mk.finish(FsInfo::Correct));
    }
    scen::combine(parts)
}

#[derive(Clone, Debug, PartialEq, Eq, Hash)]
pub struct MDirH {
    pub part: u8,
    pub is_sub: bool,
}

#[derive(Clone, Debug, PartialEq, Eq, Hash)]
pub struct MFileH {
    pub part: u8,
    pub in_sub: bool,
    pub name: u8,
}

#[derive(Clone, Debug, Default, PartialEq, Eq, Hash)]
pub struct LModel {
    pub vols: [bool; 4],
    pub dirs: Vec<MDirH>,
    pub files: Vec<MFileH>,
    /// files created so far: (partition, in SUB, name index)
    pub created: std::collections::BTreeSet<(u8, bool, u8)>,
}

pub struct LWorld<const D: usize, const F: usize, const V: usize> {
    pub vm: VolumeManager<SimDisk, Clock, D, F, V>,
    pub disk: SimDisk,
    pub vols: [Option<RawVolume>; 4],
    pub dirs: Vec<RawDirectory>,
    pub files: Vec<RawFile>,
    pub closed_vols: Vec<RawVolume>,
    pub closed_dirs: Vec<RawDirectory>,
    pub closed_files: Vec<RawFile>,
    pub m: LModel,
}

#[derive(Clone, Debug)]
pub struct LViolation {
    pub sig: String,
    pub detail: String,
    pub hist: Vec<LOp>,
    pub config: (usize, usize, usize),
}

#[derive(Default, Clone)]
pub struct LResult {
    pub states: u64,
    pub transitions: u64,
    pub probes: u64,
    pub max_depth: usize,
    pub capped: bool,
    pub outcomes: BTreeMap<String, u64>,
    pub violations: Vec<LViolation>,
    pub sample: Vec<String>,
}

fn hid<T: core::fmt::Debug>(h: &T) -> String {
    format!("{:?}", h)
}

impl<const D: usize, const F: usize, const V: usize> LWorld<D, F, V> {
    pub fn new(base: &Arc<BaseImage>, id_offset: u32) -> Self {
        let disk = SimDisk::new(Image::new(base.clone()));
        let vm = VolumeManager::new_with_limits(disk.clone(), Clock::new(), id_offset);
        LWorld {
            vm,
            disk,
            vols: [None; 4],
            dirs: Vec::new(),
            files: Vec::new(),
            closed_vols: Vec::new(),
            closed_dirs: Vec::new(),
            closed_files: Vec::new(),
            m: LModel::default(),
        }
    }

    pub fn enabled(&self) -> Vec<LOp> {
        let mut v = Vec::new();
        for p in 0..4u8 {
            if self.vols[p as usize].is_none() {
                v.push(LOp::OpenVol(p));
            } else {
                v.push(LOp::CloseVol(p));
                v.push(LOp::OpenRoot(p));
            }
        }
        // a second open of an open volume (handle-less call: the API takes an index)
        if let Some(p) = (0..4u8).find(|&p| self.vols[p as usize].is_some()) {
            v.push(LOp::OpenVol(p));
        }
        for i in 0..self.dirs.len() as u8 {
            v.push(LOp::CloseDir(i));
            if i < 2 {
                v.push(LOp::OpenSub(i));
                v.push(LOp::OpenDot(i));
                // lowest name not open in that directory, and an already-open name when there is one
                let d = &self.m.dirs[i as usize];
                let open_here: Vec<u8> = self.m.files.iter().filter(|f| f.part == d.part && f.in_sub == d.is_sub).map(|f| f.name).collect();
                if let Some(n) = (0..FNAMES.len() as u8).find(|n| !open_here.contains(n)) {
                    v.push(LOp::OpenFile(i, n));
                }
                if let Some(&n) = open_here.first() {
                    v.push(LOp::OpenFile(i, n));
                }
            }
        }
        for i in 0..self.files.len() as u8 {
            v.push(LOp::CloseFile(i));
        }
        v
    }

    /// Execute on implementation and model; returns (outcome class, findings).
    pub fn apply(&mut self, op: LOp) -> (String, Vec<(String, String)>) {
        let mut finds: Vec<(String, String)> = Vec::new();
        let vm = &self.vm;
        let m = self.m.clone();
        let expect = |refusals: &[E], res: &Result<(), E>, what: &str, finds: &mut Vec<(String, String)>| {
            if refusals.is_empty() {
                if let Err(e) = res {
                    finds.push((format!("{}/unexpected-error/{:?}", what, e), format!("{:?}: expected Ok, got Err({:?})", op, e)));
                }
            } else {
                match res {
                    Err(e) if refusals.contains(e) => {}
                    other => finds.push((format!("{}/expected-{:?}", what, refusals[0]), format!("{:?}: expected Err{:?}, got {:?}", op, refusals, other))),
                }
            }
        };
        let outcome;
        match op {
            LOp::OpenVol(p) => {
                let r = catch_quiet(|| vm.open_raw_volume(VolumeIdx(p as usize)));
                let mut refusals = vec![];
                let nopen = m.vols.iter().filter(|x| **x).count();
                if nopen >= V {
                    refusals.push(E::TooManyOpenVolumes);
                }
                if m.vols[p as usize] {
                    refusals.push(E::VolumeAlreadyOpen);
                }
                match r {
                    Caught::Panic(msg) => {
                        finds.push(("panic/open_volume".into(), msg));
                        outcome = "Panic".to_string();
                    }
                    Caught::Ok(r) => {
                        let rr = r.as_ref().map(|_| ()).map_err(map_err);
                        expect(&refusals, &rr, "open_volume", &mut finds);
                        outcome = format!("{:?}", rr);
                        if let Ok(h) = r {
                            if self.vols.iter().flatten().any(|x| *x == h) {
                                finds.push(("handle/not-distinct/volume".into(), format!("{:?} returned {} which is already open", op, hid(&h))));
                            }
                            if self.vols[p as usize].is_none() {
                                self.vols[p as usize] = Some(h);
                                self.m.vols[p as usize] = true;
                            }
                        }
                    }
                }
            }
            LOp::CloseVol(p) => {
                let h = self.vols[p as usize].unwrap();
                let busy = m.dirs.iter().any(|d| d.part == p) || m.files.iter().any(|f| f.part == p);
                match catch_quiet(|| vm.close_volume(h)) {
                    Caught::Panic(msg) => {
                        finds.push(("panic/close_volume".into(), msg));
                        outcome = "Panic".into();
                    }
                    Caught::Ok(r) => {
                        let rr = r.map_err(|e| map_err(&e));
                        expect(if busy { &[E::VolumeStillInUse] } else { &[] }, &rr, "close_volume", &mut finds);
                        outcome = format!("{:?}", rr);
                        if rr.is_ok() {
                            self.vols[p as usize] = None;
                            self.m.vols[p as usize] = false;
                            self.closed_vols.push(h);
                        }
                    }
                }
            }
            LOp::OpenRoot(_) | LOp::OpenSub(_) | LOp::OpenDot(_) => {
                let (r, part, is_sub, mut refusals) = match op {
                    LOp::OpenRoot(p) => {
                        let h = self.vols[p as usize].unwrap();
                        (catch_quiet(|| vm.open_root_dir(h)), p, false, vec![])
                    }
                    LOp::OpenSub(i) => {
                        let h = self.dirs[i as usize];
                        let d = &m.dirs[i as usize];
                        (catch_quiet(|| vm.open_dir(h, "SUB")), d.part, true, if d.is_sub { vec![E::NotFound] } else { vec![] })
                    }
                    LOp::OpenDot(i) => {
                        let h = self.dirs[i as usize];
                        let d = &m.dirs[i as usize];
                        (catch_quiet(|| vm.open_dir(h, ".")), d.part, d.is_sub, vec![])
                    }
                    _ => unreachable!(),
                };
                if m.dirs.len() >= D {
                    refusals.push(E::TooManyOpenDirs);
                }
                match r {
                    Caught::Panic(msg) => {
                        finds.push(("panic/open_dir".into(), msg));
                        outcome = "Panic".into();
                    }
                    Caught::Ok(r) => {
                        let rr = r.as_ref().map(|_| ()).map_err(map_err);
                        expect(&refusals, &rr, "open_dir", &mut finds);
                        outcome = format!("{:?}", rr);
                        if let Ok(h) = r {
                            if self.dirs.contains(&h) {
                                finds.push(("handle/not-distinct/directory".into(), format!("{:?} returned {} which is already open", op, hid(&h))));
                            }
                            self.dirs.push(h);
                            self.m.dirs.push(MDirH { part, is_sub });
                        }
                    }
                }
            }
            LOp::CloseDir(i) => {
                let h = self.dirs[i as usize];
                match catch_quiet(|| vm.close_dir(h)) {
                    Caught::Panic(msg) => {
                        finds.push(("panic/close_dir".into(), msg));
                        outcome = "Panic".into();
                    }
                    Caught::Ok(r) => {
                        let rr = r.map_err(|e| map_err(&e));
                        expect(&[], &rr, "close_dir", &mut finds);
                        outcome = format!("{:?}", rr);
                        if rr.is_ok() {
                            self.dirs.remove(i as usize);
                            self.m.dirs.remove(i as usize);
                            self.closed_dirs.push(h);
                        }
                    }
                }
            }
            LOp::OpenFile(i, n) => {
                let h = self.dirs[i as usize];
                let d = m.dirs[i as usize].clone();
                let mut refusals = vec![];
                if m.files.len() >= F {
                    refusals.push(E::TooManyOpenFiles);
                }
                if m.files.iter().any(|f| f.part == d.part && f.in_sub == d.is_sub && f.name == n) {
                    refusals.push(E::FileAlreadyOpen);
                }
                match catch_quiet(|| vm.open_file_in_dir(h, FNAMES[n as usize], Mode::ReadWriteCreateOrAppend)) {
                    Caught::Panic(msg) => {
                        finds.push(("panic/open_file".into(), msg));
                        outcome = "Panic".into();
                    }
                    Caught::Ok(r) => {
                        let rr = r.as_ref().map(|_| ()).map_err(map_err);
                        expect(&refusals, &rr, "open_file", &mut finds);
                        outcome = format!("{:?}", rr);
                        // a refused create must not leave an entry behind
                        if rr.is_err() && !m.created.contains(&(d.part, d.is_sub, n)) {
                            match catch_quiet(|| vm.find_directory_entry(h, FNAMES[n as usize])) {
                                Caught::Ok(Err(embedded_sdmmc::Error::NotFound)) => {}
                                Caught::Ok(other) => finds.push((
                                    "open_file/refused-create-left-an-entry".into(),
                                    format!("{:?} was refused with {:?} but the name now resolves to {:?}", op, rr, other.map(|e| e.size).map_err(|e| map_err(&e))),
                                )),
                                Caught::Panic(msg) => finds.push(("panic/find_directory_entry".into(), msg)),
                            }
                        }
                        if rr.is_ok() {
                            self.m.created.insert((d.part, d.is_sub, n));
                        }
                        if let Ok(fh) = r {
                            if self.files.contains(&fh) {
                                finds.push(("handle/not-distinct/file".into(), format!("{:?} returned {} which is already open", op, hid(&fh))));
                            }
                            self.files.push(fh);
                            self.m.files.push(MFileH { part: d.part, in_sub: d.is_sub, name: n });
                        }
                    }
                }
            }
            LOp::CloseFile(i) => {
                let h = self.files[i as usize];
                match catch_quiet(|| vm.close_file(h)) {
                    Caught::Panic(msg) => {
                        finds.push(("panic/close_file".into(), msg));
                        outcome = "Panic".into();
                    }
                    Caught::Ok(r) => {
                        let rr = r.map_err(|e| map_err(&e));
                        expect(&[], &rr, "close_file", &mut finds);
                        outcome = format!("{:?}", rr);
                        if rr.is_ok() {
                            self.files.remove(i as usize);
                            self.m.files.remove(i as usize);
                            self.closed_files.push(h);
                        }
                    }
                }
            }
        }
        // the open-handle query tells the truth
        if let Caught::Ok(q) = catch_quiet(|| self.vm.has_open_handles()) {
            let want = !self.m.dirs.is_empty() || !self.m.files.is_empty();
            if q != want {
                finds.push((
                    format!("has_open_handles/{}-dirs-{}-files", if self.m.dirs.is_empty() { "no" } else { "some" }, if self.m.files.is_empty() { "no" } else { "some" }),
                    format!("has_open_handles() = {} with {} directories and {} files open", q, self.m.dirs.len(), self.m.files.len()),
                ));
            }
        }
        (outcome, finds)
    }

    pub fn fingerprint(&self) -> Fp {
        let mut h = FpHasher::new();
        h.str(&crate::util::debug_string(&self.vm));
        self.disk.0.borrow().img.hash_into(&mut h);
        h.str(&format!("{:?}", self.m));
        h.finish()
    }

    fn image_fp(&self) -> Fp {
        let mut h = FpHasher::new();
        self.disk.0.borrow().img.hash_into(&mut h);
        h.finish()
    }

    /// How many more volumes / directories / files can be opened, and with which refusal the next one fails.
    fn capacity_probe(&mut self) -> Result<(), (String, String)> {
        // volumes
        let open = self.m.vols.iter().filter(|x| **x).count();
        let mut more = 0;
        for p in 0..4 {
            if self.vols[p].is_none() {
                match self.vm.open_raw_volume(VolumeIdx(p)) {
                    Ok(h) => {
                        self.vols[p] = Some(h);
                        more += 1;
                    }
                    Err(e) => {
                        let e = map_err(&e);
                        if e != E::TooManyOpenVolumes {
                            return Err(("probe/volume-limit-error".into(), format!("opening a further volume failed with {:?}", e)));
                        }
                        break;
                    }
                }
            }
        }
        let want = (V.saturating_sub(open)).min(4 - open);
        if more != want {
            return Err(("probe/volume-slots".into(), format!("{} further volumes could be opened, expected {} (limit {}, {} open)", more, want, V, open)));
        }
        // directories
        if let Some(v) = self.vols.iter().flatten().next().cloned() {
            let open = self.m.dirs.len();
            let mut more = 0;
            let mut last = None;
            for _ in 0..=D {
                match self.vm.open_root_dir(v) {
                    Ok(h) => {
                        self.dirs.push(h);
                        more += 1;
                    }
                    Err(e) => {
                        last = Some(map_err(&e));
                        break;
                    }
                }
            }
            if more != D - open || last != Some(E::TooManyOpenDirs) {
                return Err(("probe/directory-slots".into(), format!("{} further directories could be opened (then {:?}), expected {} then TooManyOpenDirs (limit {}, {} open)", more, last, D - open, D, open)));
            }
            // files
            let open = self.m.files.len();
            let d = *self.dirs.last().unwrap_or(&self.dirs[0]);
            let mut more = 0;
            let mut last = None;
            for i in 0..=F {
                match self.vm.open_file_in_dir(d, format!("Q{}.TMP", i).as_str(), Mode::ReadWriteCreateOrAppend) {
                    Ok(h) => {
                        self.files.push(h);
                        more += 1;
                    }
                    Err(e) => {
                        last = Some(map_err(&e));
                        break;
                    }
                }
            }
            if D > 0 && !self.dirs.is_empty() && (more != F - open || last != Some(E::TooManyOpenFiles)) {
                return Err(("probe/file-slots".into(), format!("{} further files could be opened (then {:?}), expected {} then TooManyOpenFiles (limit {}, {} open)", more, last, F - open, F, open)));
            }
        }
        Ok(())
    }
}

fn replay<const D: usize, const F: usize, const V: usize>(base: &Arc<BaseImage>, id: u32, hist: &[LOp]) -> LWorld<D, F, V> {
    let mut w = LWorld::<D, F, V>::new(base, id);
    for op in hist {
        w.apply(*op);
    }
    w
}

/// Stale-handle probe: every handle closed so far is fed to every method that takes a handle of that kind,
/// each call on its own replay so that an effect is attributed to the method that caused it.
fn stale_probe<const D: usize, const F: usize, const V: usize>(base: &Arc<BaseImage>, id: u32, hist: &[LOp], out: &mut Vec<(String, String)>) -> u64 {
    let w0 = replay::<D, F, V>(base, id, hist);
    let mut n = 0u64;
    let dirs_full = w0.m.dirs.len() >= D;
    let files_full = w0.m.files.len() >= F;
    let df = if dirs_full { vec![E::TooManyOpenDirs] } else { vec![] };
    let ff = if files_full { vec![E::TooManyOpenFiles] } else { vec![] };
    type W<const D: usize, const F: usize, const V: usize> = LWorld<D, F, V>;
    let mut one = |name: &'static str, handle: String, alt: &[E], call: &dyn Fn(&W<D, F, V>) -> Result<(), E>, out: &mut Vec<(String, String)>| {
        let mut w = replay::<D, F, V>(base, id, hist);
        let before = w.image_fp();
        n += 1;
        match catch_quiet(|| call(&w)) {
            Caught::Ok(Err(E::BadHandle)) => {}
            Caught::Ok(Err(e)) if alt.contains(&e) => {}
            Caught::Ok(other) => out.push((format!("stale-handle/{}-accepts-closed-handle", name), format!("{} with the closed handle {} returned {:?}, expected BadHandle", name, handle, other))),
            Caught::Panic(m) => {
                out.push((format!("stale-handle/{}-panics", name), m));
                return;
            }
        }
        if w.image_fp() != before {
            out.push((format!("stale-handle/{}/medium-changed", name), format!("{} with the closed handle {} changed the medium", name, handle)));
        }
        if let Caught::Ok(Err(e)) = catch_quiet(|| w.capacity_probe()) {
            out.push((format!("stale-handle/{}/effect/{}", name, e.0), format!("after {} with the closed handle {}: {}", name, handle, e.1)));
        }
    };
    let me = |e: embedded_sdmmc::Error<crate::simdisk::DevErr>| map_err(&e);
    for sv in w0.closed_vols.iter().rev().take(2).cloned() {
        let h = hid(&sv);
        one("open_root_dir", h.clone(), &df, &|w| w.vm.open_root_dir(sv).map(|_| ()).map_err(me), out);
        one("close_volume", h.clone(), &[], &|w| w.vm.close_volume(sv).map_err(me), out);
        one("get_root_volume_label", h.clone(), &[], &|w| w.vm.get_root_volume_label(sv).map(|_| ()).map_err(me), out);
    }
    for sd in w0.closed_dirs.iter().rev().take(2).cloned() {
        let h = hid(&sd);
        one("open_dir", h.clone(), &df, &|w| w.vm.open_dir(sd, "SUB").map(|_| ()).map_err(me), out);
        one("open_dir(\".\")", h.clone(), &df, &|w| w.vm.open_dir(sd, ".").map(|_| ()).map_err(me), out);
        one("find_directory_entry(missing name)", h.clone(), &[], &|w| w.vm.find_directory_entry(sd, "NOPE.BIN").map(|_| ()).map_err(me), out);
        one("open_file_in_dir(ReadOnly)", h.clone(), &ff, &|w| w.vm.open_file_in_dir(sd, "README.TXT", Mode::ReadOnly).map(|_| ()).map_err(me), out);
        one("delete_file_in_dir(missing name)", h.clone(), &[], &|w| w.vm.delete_file_in_dir(sd, "NOPE.BIN").map_err(me), out);
        one("find_directory_entry", h.clone(), &[], &|w| w.vm.find_directory_entry(sd, "README.TXT").map(|_| ()).map_err(me), out);
        one("iterate_dir", h.clone(), &[], &|w| w.vm.iterate_dir(sd, |_| {}).map_err(me), out);
        one(
            "iterate_dir_lfn",
            h.clone(),
            &[],
            &|w| {
                let mut st = [0u8; 64];
                let mut lb = LfnBuffer::new(&mut st);
                w.vm.iterate_dir_lfn(sd, &mut lb, |_, _| {}).map_err(me)
            },
            out,
        );
        one("open_file_in_dir", h.clone(), &ff, &|w| w.vm.open_file_in_dir(sd, "Z.TXT", Mode::ReadWriteCreateOrAppend).map(|_| ()).map_err(me), out);
        one("delete_file_in_dir", h.clone(), &[], &|w| w.vm.delete_file_in_dir(sd, "README.TXT").map_err(me), out);
        one("make_dir_in_dir", h.clone(), &df, &|w| w.vm.make_dir_in_dir(sd, "NEWDIR").map_err(me), out);
        one("close_dir", h.clone(), &[], &|w| w.vm.close_dir(sd).map_err(me), out);
    }
    for sf in w0.closed_files.iter().rev().take(2).cloned() {
        let h = hid(&sf);
        one(
            "read",
            h.clone(),
            &[],
            &|w| {
                let mut b = [0u8; 8];
                w.vm.read(sf, &mut b).map(|_| ()).map_err(me)
            },
            out,
        );
        one("write", h.clone(), &[], &|w| w.vm.write(sf, b"stale").map_err(me), out);
        one(
            "read(empty buffer)",
            h.clone(),
            &[],
            &|w| {
                let mut b = [0u8; 0];
                w.vm.read(sf, &mut b).map(|_| ()).map_err(me)
            },
            out,
        );
        one("write(empty buffer)", h.clone(), &[], &|w| w.vm.write(sf, b"").map_err(me), out);
        one("flush_file", h.clone(), &[], &|w| w.vm.flush_file(sf).map_err(me), out);
        one("file_eof", h.clone(), &[], &|w| w.vm.file_eof(sf).map(|_| ()).map_err(me), out);
        one("file_seek_from_start", h.clone(), &[], &|w| w.vm.file_seek_from_start(sf, 0).map_err(me), out);
        one("file_seek_from_current", h.clone(), &[], &|w| w.vm.file_seek_from_current(sf, 0).map_err(me), out);
        one("file_seek_from_end", h.clone(), &[], &|w| w.vm.file_seek_from_end(sf, 0).map_err(me), out);
        one("file_length", h.clone(), &[], &|w| w.vm.file_length(sf).map(|_| ()).map_err(me), out);
        one("file_offset", h.clone(), &[], &|w| w.vm.file_offset(sf).map(|_| ()).map_err(me), out);
        one("close_file", h.clone(), &[], &|w| w.vm.close_file(sf).map_err(me), out);
    }
    n
}

/// The 23 public Result-returning VolumeManager methods, invoked from inside a directory-iteration callback.
pub const REENTRANT_METHODS: [&str; 23] = [
    "open_volume",
    "open_raw_volume",
    "open_root_dir",
    "open_dir",
    "close_dir",
    "close_volume",
    "find_directory_entry",
    "iterate_dir",
    "iterate_dir_lfn",
    "open_file_in_dir",
    "delete_file_in_dir",
    "get_root_volume_label",
    "read",
    "write",
    "close_file",
    "flush_file",
    "file_eof",
    "file_seek_from_start",
    "file_seek_from_current",
    "file_seek_from_end",
    "file_length",
    "file_offset",
    "make_dir_in_dir",
];

fn reentrancy_probe<const D: usize, const F: usize, const V: usize>(base: &Arc<BaseImage>, id: u32, hist: &[LOp], wrappers: bool, out: &mut Vec<(String, String)>) -> u64 {
    let mut n = 0u64;
    for lfn in [false, true] {
        let mut w = replay::<D, F, V>(base, id, hist);
        if w.dirs.is_empty() {
            return 0;
        }
        let before = w.image_fp();
        let dir = w.dirs[0];
        let vol = w.vols.iter().flatten().next().cloned();
        let file = w.files.first().cloned();
        let vm = &w.vm;
        let mut results: Vec<(&'static str, Result<(), E>)> = Vec::new();
        let mut fired = false;
        let mut body = |results: &mut Vec<(&'static str, Result<(), E>)>| {
            let me = |e: embedded_sdmmc::Error<crate::simdisk::DevErr>| map_err(&e);
            results.push(("open_volume", vm.open_volume(VolumeIdx(3)).map(|v| { let _ = v.to_raw_volume(); }).map_err(me)));
            results.push(("open_raw_volume", vm.open_raw_volume(VolumeIdx(3)).map(|_| ()).map_err(me)));
            if let Some(v) = vol {
                results.push(("open_root_dir", vm.open_root_dir(v).map(|_| ()).map_err(me)));
                results.push(("close_volume", vm.close_volume(v).map_err(me)));
                results.push(("get_root_volume_label", vm.get_root_volume_label(v).map(|_| ()).map_err(me)));
                if wrappers {
                    let vw = v.to_volume(vm);
                    results.push(("Volume::open_root_dir", vw.open_root_dir().map(|d| { let _ = d.to_raw_directory(); }).map_err(me)));
                    let _ = vw.to_raw_volume();
                }
            }
            results.push(("open_dir", vm.open_dir(dir, "SUB").map(|_| ()).map_err(me)));
            results.push(("open_dir(\".\")", vm.open_dir(dir, ".").map(|_| ()).map_err(me)));
            results.push(("find_directory_entry", vm.find_directory_entry(dir, "README.TXT").map(|_| ()).map_err(me)));
            results.push(("iterate_dir", vm.iterate_dir(dir, |_| {}).map_err(me)));
            let mut st = [0u8; 32];
            let mut lb = LfnBuffer::new(&mut st);
            results.push(("iterate_dir_lfn", vm.iterate_dir_lfn(dir, &mut lb, |_, _| {}).map_err(me)));
            results.push(("open_file_in_dir", vm.open_file_in_dir(dir, "REENT.TXT", Mode::ReadWriteCreateOrAppend).map(|_| ()).map_err(me)));
            results.push(("delete_file_in_dir", vm.delete_file_in_dir(dir, "README.TXT").map_err(me)));
            results.push(("make_dir_in_dir", vm.make_dir_in_dir(dir, "REENTDIR").map_err(me)));
            if wrappers {
                let mut dw = dir.to_directory(vm);
                results.push(("Directory::open_dir", dw.open_dir("SUB").map(|d| { let _ = d.to_raw_directory(); }).map_err(me)));
                results.push(("Directory::change_dir", dw.change_dir("SUB").map_err(me)));
                results.push(("Directory::find_directory_entry", dw.find_directory_entry("README.TXT").map(|_| ()).map_err(me)));
                results.push(("Directory::iterate_dir", dw.iterate_dir(|_| {}).map_err(me)));
                let mut st2 = [0u8; 32];
                let mut lb2 = LfnBuffer::new(&mut st2);
                results.push(("Directory::iterate_dir_lfn", dw.iterate_dir_lfn(&mut lb2, |_, _| {}).map_err(me)));
                results.push(("Directory::open_file_in_dir", dw.open_file_in_dir("REENT.TXT", Mode::ReadWriteCreateOrAppend).map(|f| { let _ = f.to_raw_file(); }).map_err(me)));
                results.push(("Directory::delete_file_in_dir", dw.delete_file_in_dir("README.TXT").map_err(me)));
                results.push(("Directory::make_dir_in_dir", dw.make_dir_in_dir("REENTDIR").map_err(me)));
                let _ = dw.to_raw_directory();
            }
            if let Some(f) = file {
                let mut b = [0u8; 4];
                results.push(("read", vm.read(f, &mut b).map(|_| ()).map_err(me)));
                results.push(("write", vm.write(f, b"reentrant").map_err(me)));
                let mut e0 = [0u8; 0];
                results.push(("read(empty buffer)", vm.read(f, &mut e0).map(|_| ()).map_err(me)));
                results.push(("write(empty buffer)", vm.write(f, b"").map_err(me)));
                results.push(("flush_file", vm.flush_file(f).map_err(me)));
                results.push(("file_eof", vm.file_eof(f).map(|_| ()).map_err(me)));
                results.push(("file_seek_from_start", vm.file_seek_from_start(f, 0).map_err(me)));
                results.push(("file_seek_from_current", vm.file_seek_from_current(f, 0).map_err(me)));
                results.push(("file_seek_from_end", vm.file_seek_from_end(f, 0).map_err(me)));
                results.push(("file_length", vm.file_length(f).map(|_| ()).map_err(me)));
                results.push(("file_offset", vm.file_offset(f).map(|_| ()).map_err(me)));
                if wrappers {
                    use embedded_io::{Read, Seek, SeekFrom, Write};
                    let mut fw = f.to_file(vm);
                    let mut b2 = [0u8; 4];
                    results.push(("File::read", fw.read(&mut b2).map(|_| ()).map_err(me)));
                    results.push(("File::write", fw.write(b"reentrant").map_err(me)));
                    results.push(("File::seek_from_start", fw.seek_from_start(0).map_err(me)));
                    results.push(("File::seek_from_current", fw.seek_from_current(0).map_err(me)));
                    results.push(("File::seek_from_end", fw.seek_from_end(0).map_err(me)));
                    results.push(("File::flush", fw.flush().map_err(me)));
                    results.push(("embedded_io::Read::read", Read::read(&mut fw, &mut b2).map(|_| ()).map_err(me)));
                    results.push(("embedded_io::Write::write", Write::write(&mut fw, b"re").map(|_| ()).map_err(me)));
                    results.push(("embedded_io::Write::flush", Write::flush(&mut fw).map_err(me)));
                    results.push(("embedded_io::Seek::seek", fw.seek(SeekFrom::Start(0)).map(|_| ()).map_err(me)));
                    let _ = fw.to_raw_file();
                }
                // close last: with a broken lock it would invalidate the handle for the calls above
                results.push(("close_file", vm.close_file(f).map_err(me)));
            }
            results.push(("close_dir", vm.close_dir(dir).map_err(me)));
        };
        let outer = catch_quiet(|| {
            if lfn {
                let mut st = [0u8; 64];
                let mut lb = LfnBuffer::new(&mut st);
                vm.iterate_dir_lfn(dir, &mut lb, |_, _| {
                    if !fired {
                        fired = true;
                        body(&mut results);
                    }
                })
            } else {
                vm.iterate_dir(dir, |_| {
                    if !fired {
                        fired = true;
                        body(&mut results);
                    }
                })
            }
        });
        let which = if lfn { "iterate_dir_lfn" } else { "iterate_dir" };
        match outer {
            Caught::Panic(m) => {
                out.push((format!("reentrancy/panic-inside-{}", which), m));
                continue;
            }
            Caught::Ok(Err(e)) => out.push((format!("reentrancy/outer-{}-failed", which), format!("{:?}", map_err(&e)))),
            Caught::Ok(Ok(())) => {}
        }
        if !fired {
            continue;
        }
        for (name, r) in &results {
            n += 1;
            if *r != Err(E::LockError) {
                out.push((format!("reentrancy/{}-not-refused-with-lock-error", name), format!("{} called from inside a {} callback returned {:?}, expected Err(LockError)", name, which, r)));
            }
        }
        if w.image_fp() != before {
            out.push(("reentrancy/medium-changed".into(), format!("re-entrant calls from a {} callback changed the medium", which)));
        }
        if let Caught::Ok(Err(e)) = catch_quiet(|| w.capacity_probe()) {
            out.push((format!("reentrancy/effect/{}", e.0), format!("after re-entrant calls from a {} callback: {}", which, e.1)));
        }
    }
    n
}

/// The wrapper types hand their handle back with `to_raw_*` *without* closing it, and take it over with `to_*`
/// without re-opening it: after `open_volume(p)?.to_raw_volume()` the volume is open (cannot be opened again, can be
/// closed), the same for directories and files; dropping a wrapper closes exactly its own handle.
fn conversion_probe<const D: usize, const F: usize, const V: usize>(base: &Arc<BaseImage>, id: u32, hist: &[LOp], out: &mut Vec<(String, String)>) -> u64 {
    let w = replay::<D, F, V>(base, id, hist);
    let vm = &w.vm;
    let me = |e: embedded_sdmmc::Error<crate::simdisk::DevErr>| map_err(&e);
    let mut n = 0u64;
    let mut bad = |sig: &str, detail: String| out.push((format!("conversion/{}", sig), detail));
    // a volume that is not open yet, if the table has room
    let open_count = w.m.vols.iter().filter(|x| **x).count();
    if let (Some(p), true) = ((0..4usize).find(|&p| !w.m.vols[p]), open_count < V) {
        n += 1;
        match vm.open_volume(VolumeIdx(p)).map(|v| v.to_raw_volume()).map_err(me) {
            Ok(h) => {
                // (refused as already open, or - with a full table - as one volume too many)
                if let Ok(h2) = vm.open_raw_volume(VolumeIdx(p)) {
                    bad("volume-closed-by-to_raw_volume", format!("after open_volume({})?.to_raw_volume() the volume can be opened a second time", p));
                    let _ = vm.close_volume(h2);
                }
                if let Err(e) = vm.close_volume(h).map_err(me) {
                    bad("volume-closed-by-to_raw_volume", format!("after open_volume({})?.to_raw_volume(), close_volume on the handle -> {:?}", p, e));
                }
                // and dropping the wrapper does close
                match vm.open_volume(VolumeIdx(p)) {
                    Ok(v) => drop(v),
                    Err(e) => bad("volume-not-reopenable", format!("open_volume({}) after closing it -> {:?}", p, map_err(&e))),
                }
                match vm.open_raw_volume(VolumeIdx(p)).map_err(me) {
                    Ok(h2) => {
                        let _ = vm.close_volume(h2);
                    }
                    Err(e) => bad("volume-not-closed-by-drop", format!("after dropping the Volume wrapper of partition {}, open_raw_volume -> {:?}", p, e)),
                }
            }
            Err(e) => bad("open_volume-fails", format!("open_volume({}) with {} of {} volumes open -> {:?}", p, open_count, V, e)),
        }
    }
    // a directory and a file on an open volume, if the tables have room
    if let Some(vh) = w.vols.iter().flatten().next().cloned() {
        if w.dirs.len() < D {
            n += 1;
            match vm.open_root_dir(vh).map_err(me) {
                Ok(raw) => {
                    let back = raw.to_directory(vm).to_raw_directory();
                    if back != raw {
                        bad("directory-handle-changed", format!("to_directory().to_raw_directory() turned {} into {}", hid(&raw), hid(&back)));
                    }
                    if let Err(e) = vm.iterate_dir(back, |_| {}).map_err(me) {
                        bad("directory-closed-by-to_raw_directory", format!("iterate_dir on the handle -> {:?}", e));
                    }
                    if w.files.len() < F {
                        match vm.open_file_in_dir(back, "README.TXT", Mode::ReadOnly).map_err(me) {
                            Ok(rf) => {
                                let fb = rf.to_file(vm).to_raw_file();
                                if fb != rf {
                                    bad("file-handle-changed", format!("to_file().to_raw_file() turned {} into {}", hid(&rf), hid(&fb)));
                                }
                                if let Err(e) = vm.file_length(fb).map_err(me) {
                                    bad("file-closed-by-to_raw_file", format!("file_length on the handle -> {:?}", e));
                                }
                                // dropping the wrapper closes the file: the directory can then be closed and the file reopened
                                drop(fb.to_file(vm));
                                if !matches!(vm.file_length(fb).map_err(me), Err(E::BadHandle)) {
                                    bad("file-not-closed-by-drop", "file_length succeeds on a handle whose File wrapper was dropped".into());
                                }
                            }
                            // README.TXT may be open already in this state
                            Err(E::FileAlreadyOpen) => {}
                            Err(e) => bad("open_file-fails", format!("open_file_in_dir(README.TXT, ReadOnly) -> {:?}", e)),
                        }
                    }
                    drop(back.to_directory(vm));
                    if !matches!(vm.iterate_dir(back, |_| {}).map_err(me), Err(E::BadHandle)) {
                        bad("directory-not-closed-by-drop", "iterate_dir succeeds on a handle whose Directory wrapper was dropped".into());
                    }
                }
                Err(e) => bad("open_root_dir-fails", format!("open_root_dir with {} of {} directories open -> {:?}", w.dirs.len(), D, e)),
            }
        }
    }
    n
}

#[derive(Clone, Copy, Debug, PartialEq, Eq)]
pub enum Probes {
    None,
    Full,
    FullWithWrappers,
}

/// Explore all open/close histories up to `depth` for one limit configuration.
pub fn explore<const D: usize, const F: usize, const V: usize>(base: &Arc<BaseImage>, id_offset: u32, depth: usize, probes: Probes, max_states: u64, prefill: bool) -> LResult {
    let mut res = LResult::default();
    let mut seen: HashSet<Fp> = HashSet::new();
    // start from a non-initial state: tables filled to two below their limits
    let mut prelude: Vec<LOp> = Vec::new();
    if prefill {
        let nv = V.min(4).saturating_sub(1).max(1);
        for p in 0..nv as u8 {
            prelude.push(LOp::OpenVol(p));
        }
        let nf = F.saturating_sub(2);
        let nd = D.saturating_sub(2).max(if nf > 0 { 1 } else { 0 }).min(D);
        for _ in 0..nd {
            prelude.push(LOp::OpenRoot(0));
        }
        if nd > 0 {
            for n in 0..nf.min(FNAMES.len()) as u8 {
                prelude.push(LOp::OpenFile(0, n));
            }
        }
    }
    let w0 = replay::<D, F, V>(base, id_offset, &prelude);
    seen.insert(w0.fingerprint());
    res.states = 1;
    let mut frontier: Vec<Vec<LOp>> = vec![prelude.clone()];
    let mut add = |res: &mut LResult, sig: String, detail: String, hist: &[LOp]| {
        if !res.violations.iter().any(|v| v.sig == sig) {
            res.violations.push(LViolation { sig, detail, hist: hist.to_vec(), config: (D, F, V) });
        }
    };
    for level in 1..=depth {
        let mut next = Vec::new();
        for hist in &frontier {
            let w = replay::<D, F, V>(base, id_offset, hist);
            for op in w.enabled() {
                let mut w2 = replay::<D, F, V>(base, id_offset, hist);
                let (outcome, finds) = w2.apply(op);
                res.transitions += 1;
                let kind = format!("{:?}", op);
                let kind = kind.split('(').next().unwrap_or("").to_string();
                *res.outcomes.entry(format!("{}: {}", kind, outcome)).or_insert(0) += 1;
                let mut h2 = hist.clone();
                h2.push(op);
                let bad = !finds.is_empty();
                for (sig, detail) in finds {
                    add(&mut res, sig, detail, &h2);
                }
                if bad {
                    continue; // model and implementation disagree: do not build on this state
                }
                if seen.insert(w2.fingerprint()) {
                    res.states += 1;
                    if probes != Probes::None {
                        let mut out = Vec::new();
                        res.probes += stale_probe::<D, F, V>(base, id_offset, &h2, &mut out);
                        res.probes += reentrancy_probe::<D, F, V>(base, id_offset, &h2, probes == Probes::FullWithWrappers, &mut out);
                        res.probes += conversion_probe::<D, F, V>(base, id_offset, &h2, &mut out);
                        for (sig, detail) in out {
                            add(&mut res, sig, detail, &h2);
                        }
                    }
                    if res.sample.len() < 3 && res.states % 37 == 5 {
                        res.sample.push(format!("{:?}", h2));
                    }
                    next.push(h2);
                }
            }
            if res.states > max_states {
                res.capped = true;
                break;
            }
        }
        res.max_depth = level;
        if res.capped || next.is_empty() {
            break;
        }
        frontier = next;
    }
    res
}

pub type ExploreFn = fn(&Arc<BaseImage>, u32, usize, Probes, u64, bool) -> LResult;
