//! Shared driver of the C08 limit-grid binaries.

use crate::engine::{Report, Violation};
use crate::limits::*;
use crate::util::par_map;
use serde_json::{json, Value};
use std::sync::Arc;

fn lop_to_json(o: &LOp) -> Value {
    json!(format!("{:?}", o))
}

fn lop_from_str(s: &str) -> Option<LOp> {
    let (name, rest) = s.split_once('(')?;
    let args: Vec<u8> = rest.trim_end_matches(')').split(',').filter_map(|x| x.trim().parse().ok()).collect();
    Some(match name {
        "OpenVol" => LOp::OpenVol(args[0]),
        "CloseVol" => LOp::CloseVol(args[0]),
        "OpenRoot" => LOp::OpenRoot(args[0]),
        "OpenSub" => LOp::OpenSub(args[0]),
        "OpenDot" => LOp::OpenDot(args[0]),
        "CloseDir" => LOp::CloseDir(args[0]),
        "OpenFile" => LOp::OpenFile(args[0], args[1]),
        "CloseFile" => LOp::CloseFile(args[0]),
        _ => return None,
    })
}

/// Count `pub fn ... -> Result` methods of VolumeManager in the source, so a new method is noticed.
fn count_public_result_methods() -> Option<usize> {
    let src = std::fs::read_to_string(std::env::var("REPO_DIR").unwrap_or_else(|_| "/repo".into()) + "/src/volume_mgr.rs").ok()?;
    let end = src.find("struct VolumeManagerData")?;
    let body = &src[..end];
    let mut n = 0;
    let mut rest = body;
    while let Some(p) = rest.find("    pub fn ") {
        let after = &rest[p..];
        let sig_end = after.find('{').unwrap_or(after.len());
        let sig = &after[..sig_end];
        if sig.contains("-> Result<") {
            n += 1;
        }
        rest = &after[sig_end.min(after.len() - 1).max(1)..];
    }
    Some(n)
}

pub fn run(tier: &str, cfgs: Vec<((usize, usize, usize), ExploreFn)>) -> i32 {
    let mut rep = Report::new("C08", tier, "model_checking");
    let base = Arc::new(four_partition_device());
    let quick = tier == "quick";
    // probe configurations (stale handles + re-entrancy at every state)
    let probe_cfgs: &[(usize, usize, usize)] = &[(2, 2, 2), (1, 1, 1), (3, 2, 2), (4, 4, 1), (2, 3, 2)];
    let jobs: Vec<(usize, u32, usize, Probes, u64, bool)> = {
        let mut j = Vec::new();
        for (i, (c, _)) in cfgs.iter().enumerate() {
            let big = c.0 + c.1 + c.2 > 12;
            let depth = if quick { if big { 5 } else { 5 } } else if big { 6 } else { 7 };
            j.push((i, 5000u32, depth, Probes::None, if quick { 4_000 } else { 60_000 }, false));
            if c.0 > 2 || c.1 > 2 || c.2 > 2 {
                j.push((i, 5000u32, depth, Probes::None, if quick { 4_000 } else { 60_000 }, true));
            }
            if probe_cfgs.contains(c) {
                let pd = if quick { 4 } else { 5 };
                j.push((i, 5000, pd, if quick { Probes::Full } else { Probes::FullWithWrappers }, if quick { 1_500 } else { 20_000 }, false));
            }
            if *c == (2, 2, 2) {
                // handle counter crossing the 32-bit wrap
                j.push((i, u32::MAX - 2, if quick { 5 } else { 7 }, Probes::Full, if quick { 1_500 } else { 20_000 }, false));
            }
        }
        j
    };
    let results: Vec<LResult> = par_map(jobs.len(), |k| {
        let (i, id, depth, probes, cap, prefill) = jobs[k];
        (cfgs[i].1)(&base, id, depth, probes, cap, prefill)
    });
    let mut states = 0u64;
    let mut transitions = 0u64;
    let mut probes_n = 0u64;
    let mut per_cfg = Vec::new();
    let mut samples = Vec::new();
    let mut capped = false;
    for (k, r) in results.iter().enumerate() {
        let (i, id, depth, probes, _, prefill) = jobs[k];
        states += r.states;
        transitions += r.transitions;
        probes_n += r.probes;
        capped |= r.capped;
        per_cfg.push(json!({"limits": [cfgs[i].0 .0, cfgs[i].0 .1, cfgs[i].0 .2], "id_offset": id, "start": if prefill { "tables filled to two below their limits" } else { "empty" }, "depth_bound": depth, "depth_reached": r.max_depth, "probes": format!("{:?}", probes), "states": r.states, "transitions": r.transitions, "probe_calls": r.probes, "capped": r.capped, "outcomes": r.outcomes}));
        for s in &r.sample {
            if samples.len() < 6 {
                samples.push(json!({"limits": [cfgs[i].0 .0, cfgs[i].0 .1, cfgs[i].0 .2], "history": s}));
            }
        }
        for v in &r.violations {
            rep.add_violations(vec![Violation {
                prop: "C08".into(),
                sig: v.sig.clone(),
                detail: format!("limits (dirs, files, volumes) = {:?}, handle ids from {:#x}: {}; history {:?}", v.config, id, v.detail, v.hist),
                scenario: format!("limits-{}-{}-{}", v.config.0, v.config.1, v.config.2),
                hist: vec![],
                input: Some(json!({"config": [v.config.0, v.config.1, v.config.2], "id_offset": id, "probes": probes != Probes::None, "hist": v.hist.iter().map(lop_to_json).collect::<Vec<_>>()})),
            }]);
        }
    }
    rep.cov("states", json!(states));
    rep.cov("transitions", json!(transitions));
    rep.cov("traces_validated_against_impl", json!(transitions + probes_n));
    rep.cov("stale_and_reentrant_probe_calls", json!(probes_n));
    rep.cov("limit_configurations", json!(cfgs.len()));
    rep.cov("configurations", json!(per_cfg));
    rep.cov("samples", json!(samples));
    rep.cov("exhaustive", json!(!capped));
    rep.cov("reentrant_methods", json!(REENTRANT_METHODS));
    rep.cov("public_result_methods_counted_in_source", json!(count_public_result_methods()));
    rep.assumptions.push("an MBR has four slots, so for MAX_VOLUMES > 4 the volume limit is unreachable and the check asserts the too-many error never fires".into());
    rep.assumptions.push("has_open_handles, device and free do not return a Result and are outside the re-entrancy clause".into());
    rep.assumptions.push("make_dir_in_dir with a full directory table may return TooManyOpenDirs (explicit, commented check in the crate)".into());
    rep.finish()
}

pub fn replay(path: &str, cfgs: Vec<((usize, usize, usize), ExploreFn)>) -> i32 {
    let v: Value = match std::fs::read_to_string(path).ok().and_then(|s| serde_json::from_str(&s).ok()) {
        Some(v) => v,
        None => return 2,
    };
    let inp = &v["input"];
    let c: Vec<usize> = inp["config"].as_array().map(|a| a.iter().map(|x| x.as_u64().unwrap_or(0) as usize).collect()).unwrap_or_default();
    let hist: Vec<LOp> = inp["hist"].as_array().map(|a| a.iter().filter_map(|x| x.as_str().and_then(lop_from_str)).collect()).unwrap_or_default();
    let id = inp["id_offset"].as_u64().unwrap_or(5000) as u32;
    let probes = inp["probes"].as_bool().unwrap_or(false);
    let Some((_, f)) = cfgs.iter().find(|(k, _)| c == [k.0, k.1, k.2]) else { return 2 };
    println!("replaying {:?} with limits {:?}", hist, c);
    // explore exactly along this history: depth = len, then filter the violations of this history
    let base = Arc::new(four_partition_device());
    let r = f(&base, id, hist.len(), if probes { Probes::FullWithWrappers } else { Probes::None }, u64::MAX, false);
    let want = v["signature"].as_str().unwrap_or("");
    let mut any = false;
    for x in r.violations.iter().filter(|x| x.sig == want || x.hist == hist) {
        any = true;
        println!("VIOLATION property=C08 signature={}\n  {} (history {:?})", x.sig, x.detail, x.hist);
    }
    if any {
        1
    } else {
        println!("no violation on replay");
        0
    }
}


pub fn main_with(cfgs: Vec<((usize, usize, usize), ExploreFn)>) {
    crate::util::install_panic_hook();
    let args: Vec<String> = std::env::args().collect();
    let r = std::panic::catch_unwind(std::panic::AssertUnwindSafe(|| match args.get(1).map(|s| s.as_str()) {
        Some("--replay") => replay(&args[2], cfgs),
        Some("C08") => run(args.get(2).map(|s| s.as_str()).unwrap_or("quick"), cfgs),
        _ => {
            eprintln!("usage: sdmmc-mc-limits C08 <quick|thorough> | --replay <file>");
            2
        }
    }));
    let code = match r {
        Ok(c) => c,
        Err(_) => {
            eprintln!("MACHINERY FAILURE (not a verdict): the harness panicked");
            2
        }
    };
    std::process::exit(code);
}
