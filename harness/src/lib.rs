//! sdmmc-mc library: substrate, engines and property checks (see /verif/DESIGN.md).
pub mod engine;
pub mod limits;
pub mod limits_main;
pub mod medium;
pub mod mkfs;
pub mod names83;
pub mod props;
pub mod refat;
pub mod scen;
pub mod selftest;
pub mod simcard;
pub mod simdisk;
pub mod spimon;
pub mod util;
pub mod watchdog;
pub mod world;
