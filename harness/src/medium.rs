//! Views of the medium: refat's view (FATs + tree) and the crate's own view
//! through a completely fresh mount.

use crate::engine::VolCtx;
use crate::refat::{self, Tree};
use crate::simdisk::{Clock, Image, SimDisk};
use crate::util::{catch_quiet, Caught};
use crate::world::{list_ent, map_err, ListEnt, E};
use embedded_sdmmc::{Mode, RawDirectory, ShortFileName, VolumeIdx, VolumeManager};
use std::collections::{BTreeMap, BTreeSet};

pub struct View {
    pub fats: Vec<Vec<u32>>,
    pub tree: Tree,
}

pub fn view(vc: &VolCtx, img: &Image) -> View {
    let fats: Vec<Vec<u32>> = (0..vc.vol.nfats).map(|c| vc.fat(img, c)).collect();
    let tree = refat::walk(img, &vc.vol, &fats[0]);
    View { fats, tree }
}

impl View {
    /// allocated but referenced by nothing
    pub fn lost(&self, vc: &VolCtx) -> BTreeSet<u32> {
        let v = &vc.vol;
        (2..v.clusters + 2)
            .filter(|&c| {
                let e = refat::low(v, self.fats[0][c as usize]);
                e != 0 && !v.is_bad(e) && self.tree.owner_idx[c as usize] == 0
            })
            .collect()
    }
    pub fn free(&self, vc: &VolCtx) -> u32 {
        refat::count_free(&self.fats[0], &vc.vol)
    }
}

#[derive(Clone, Debug, PartialEq, Eq)]
pub struct Seen {
    pub ent: ListEnt,
    pub is_dir: bool,
    /// file contents as read through the crate (None for directories and files > 1 MiB)
    pub data: Option<Vec<u8>>,
}

type Vm = VolumeManager<SimDisk, Clock, 8, 4, 1>;

fn dump_dir(vm: &Vm, dir: RawDirectory, path: &str, depth: usize, out: &mut BTreeMap<String, Seen>) -> Result<(), String> {
    let mut ents: Vec<(ListEnt, ShortFileName)> = Vec::new();
    vm.iterate_dir(dir, |de| ents.push((list_ent(de, None), de.name.clone())))
        .map_err(|e| format!("iterate_dir({}): {:?}", path, map_err(&e)))?;
    for (le, sfn) in ents {
        if le.attr & 0x08 != 0 || &le.name == b".          " || &le.name == b"..         " {
            continue;
        }
        let p = format!("{}/{}", path, refat::name_to_string(&le.name));
        let is_dir = le.attr & 0x10 != 0;
        if out.len() >= 3000 {
            // (a medium that exposes garbage as directories describes millions of pseudo-entries)
            return Err("the tree listed by the library has more than 3000 entries".into());
        }
        if is_dir {
            out.insert(p.clone(), Seen { ent: le, is_dir, data: None });
            if depth < 5 {
                let sub = vm.open_dir(dir, &sfn).map_err(|e| format!("open_dir({}): {:?}", p, map_err(&e)))?;
                let r = dump_dir(vm, sub, &p, depth + 1, out);
                let _ = vm.close_dir(sub);
                r?;
            }
        } else {
            // a file that cannot be read is recorded with no data; the rest of the tree is still dumped
            let data = if le.size > (1 << 20) {
                None
            } else {
                (|| -> Result<Vec<u8>, String> {
                    let f = vm.open_file_in_dir(dir, &sfn, Mode::ReadOnly).map_err(|e| format!("open_file({}): {:?}", p, map_err(&e)))?;
                    let mut buf = vec![0u8; le.size as usize + 16];
                    let mut got = 0;
                    let r = loop {
                        match vm.read(f, &mut buf[got..]) {
                            Ok(0) => break Ok(()),
                            Ok(n) => got += n,
                            Err(e) => break Err(format!("read({}): {:?}", p, map_err(&e))),
                        }
                    };
                    let _ = vm.close_file(f);
                    r?;
                    buf.truncate(got);
                    Ok(buf)
                })()
                .ok()
            };
            out.insert(p, Seen { ent: le, is_dir, data });
        }
    }
    Ok(())
}

/// Mount `img` with a completely fresh VolumeManager and dump the tree of partition `slot`.
pub fn remount_dump(img: &Image, slot: usize) -> Result<BTreeMap<String, Seen>, String> {
    let img = img.clone();
    match catch_quiet(move || {
        let disk = SimDisk::new(img);
        disk.set_horizon(2_000_000);
        let vm: Vm = VolumeManager::new_with_limits(disk, Clock::new(), 100);
        let v = vm.open_raw_volume(VolumeIdx(slot)).map_err(|e| format!("open_volume: {:?}", map_err(&e)))?;
        let root = vm.open_root_dir(v).map_err(|e| format!("open_root_dir: {:?}", map_err(&e)))?;
        let mut out = BTreeMap::new();
        dump_dir(&vm, root, "", 0, &mut out)?;
        Ok(out)
    }) {
        Caught::Ok(r) => r,
        Caught::Panic(m) => Err(format!("panic: {}", m)),
    }
}

pub fn _e(_: E) {}

fn list_dir_rec(vm: &Vm, dir: RawDirectory, path: &str, depth: usize, count: &mut usize) -> Result<(), String> {
    let mut ents: Vec<(ListEnt, ShortFileName)> = Vec::new();
    vm.iterate_dir(dir, |de| ents.push((list_ent(de, None), de.name.clone())))
        .map_err(|e| format!("iterate_dir({}): {:?}", path, map_err(&e)))?;
    for (le, sfn) in ents {
        *count += 1;
        if *count > 5000 {
            return Err("listing does not terminate (more than 5000 entries)".into());
        }
        if le.attr & 0x08 != 0 || &le.name == b".          " || &le.name == b"..         " {
            continue;
        }
        if le.attr & 0x10 != 0 && depth < 5 {
            let p = format!("{}/{}", path, refat::name_to_string(&le.name));
            let sub = vm.open_dir(dir, &sfn).map_err(|e| format!("open_dir({}): {:?}", p, map_err(&e)))?;
            let r = list_dir_rec(vm, sub, &p, depth + 1, count);
            let _ = vm.close_dir(sub);
            r?;
        }
    }
    Ok(())
}

/// Mount and list the whole tree (no file reads).
pub fn remount_list(img: &Image, slot: usize) -> Result<usize, String> {
    let img = img.clone();
    match catch_quiet(move || {
        let disk = SimDisk::new(img);
        disk.set_horizon(2_000_000);
        let vm: Vm = VolumeManager::new_with_limits(disk, Clock::new(), 100);
        let v = vm.open_raw_volume(VolumeIdx(slot)).map_err(|e| format!("open_volume: {:?}", map_err(&e)))?;
        let root = vm.open_root_dir(v).map_err(|e| format!("open_root_dir: {:?}", map_err(&e)))?;
        let mut n = 0;
        list_dir_rec(&vm, root, "", 0, &mut n)?;
        Ok(n)
    }) {
        Caught::Ok(r) => r,
        Caught::Panic(m) => Err(format!("panic: {}", m)),
    }
}
