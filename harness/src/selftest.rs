//! Substrate self-test: refat against the repository's macOS-made image, and
//! mkfs images against both refat and the crate. Failure is a machinery
//! failure (exit 2), never a verdict.

use crate::engine::make_cfg;
use crate::mkfs::FsInfo;
use crate::refat;
use crate::scen;
use crate::simdisk::{BaseImage, Rd};
use crate::world::{Front, Op, Res, World};
use std::io::Read;

fn load_repo_image() -> Result<BaseImage, String> {
    let p = std::env::var("REPO_DIR").unwrap_or_else(|_| "/repo".into()) + "/tests/disk.img.gz";
    let f = std::fs::File::open(&p).map_err(|e| format!("{}: {}", p, e))?;
    let mut gz = flate2::read::GzDecoder::new(f);
    let mut img = BaseImage::default();
    let mut buf = [0u8; 512];
    let mut idx = 0u32;
    loop {
        match gz.read_exact(&mut buf) {
            Ok(()) => {
                if buf.iter().any(|&b| b != 0) {
                    img.explicit.insert(idx, buf);
                }
                idx += 1;
            }
            Err(_) => break,
        }
    }
    if idx != 1_048_576 {
        return Err(format!("disk image has {} blocks", idx));
    }
    Ok(img)
}

fn check(cond: bool, msg: String) -> Result<(), String> {
    if cond {
        Ok(())
    } else {
        Err(msg)
    }
}

pub fn repo_image_test() -> Result<(), String> {
    let img = load_repo_image()?;
    for (slot, fat32) in [(0usize, false), (1usize, true)] {
        let v = refat::locate(&img, slot)?;
        check(v.fat32 == fat32, format!("partition {} fat32={}", slot, v.fat32))?;
        let fat = refat::read_fat(&img, &v, 0);
        let t = refat::walk(&img, &v, &fat);
        check(t.problems.is_empty(), format!("refat finds problems in the reference image: {:?}", t.problems))?;
        let want = [("/README.TXT", 258u32), ("/EMPTY.DAT", 0), ("/64MB.DAT", 67108864), ("/TEST/TEST.DAT", 3500)];
        for (p, sz) in want {
            let n = t.find(p).ok_or(format!("refat: {} missing on partition {}", p, slot))?;
            check(n.ent.size == sz, format!("{} size {}", p, n.ent.size))?;
        }
        check(t.find("/TEST").map(|n| n.is_dir).unwrap_or(false), "TEST is not a dir".into())?;
        // FAT copies equal
        if v.nfats == 2 {
            check(fat == refat::read_fat(&img, &v, 1), "FAT copies differ in reference image".into())?;
        }
    }
    // the crate reads the same bytes as refat for README.TXT and TEST/TEST.DAT on both partitions
    let cfg = make_cfg(img, Front::Raw, false);
    for slot in 0..2u8 {
        let mut w = World::new(cfg.clone());
        let ops = [
            Op::OpenVol { v: slot },
            Op::OpenRoot { v: slot, d: 0 },
        ];
        for o in ops {
            let st = w.apply(o, false);
            check(st.res == Res::Ok, format!("crate: {:?} -> {:?}", o, st.res))?;
        }
        check(!w.m.diverged, "model diverged on reference image".into())?;
        let st = w.apply(Op::List { d: 0 }, false);
        check(matches!(st.res, Res::Listing(_)) && st.findings.is_empty(), format!("listing root: {:?} {:?}", st.res.class(), st.findings))?;
    }
    Ok(())
}

pub fn mkfs_test() -> Result<(), String> {
    for (name, g) in [("V16a", scen::g_v16a()), ("V16b", scen::g_v16b()), ("V32a", scen::g_v32a()), ("V32b", scen::g_v32b())] {
        for free in [None, Some(2usize)] {
            let o = scen::TreeOpts {
                free,
                ..Default::default()
            };
            let img = scen::build(g.clone(), &o);
            let v = refat::locate(&img, 0).map_err(|e| format!("{}: refat cannot locate: {}", name, e))?;
            check(v.fat32 == g.fat32 && v.clusters == g.clusters, format!("{}: geometry mismatch {:?}", name, v))?;
            let fat = refat::read_fat(&img, &v, 0);
            let t = refat::walk(&img, &v, &fat);
            check(t.problems.is_empty(), format!("{}: refat problems in mkfs image: {:?}", name, t.problems))?;
            if let Some(f) = free {
                check(refat::count_free(&fat, &v) as usize == f, format!("{}: free {}", name, refat::count_free(&fat, &v)))?;
            }
            if v.nfats == 2 {
                check(fat == refat::read_fat(&img, &v, 1), format!("{}: mkfs FAT copies differ", name))?;
                let slack_equal = (0..v.fatsz).all(|s| img.rd(v.fat_block(0, s)) == img.rd(v.fat_block(1, s)));
                check(slack_equal, format!("{}: mkfs FAT regions differ", name))?;
            }
            let old = t.find("/OLD.DAT").ok_or("OLD.DAT missing")?;
            check(old.chain.len() == 3, "OLD.DAT chain".into())?;
            let lf = t.find("/LONGFI~1.TXT").ok_or("LONGFI~1.TXT missing")?;
            check(
                lf.ent.lfn.as_ref().map(|u| String::from_utf16_lossy(u)) == Some("long file name.txt".to_string()),
                format!("{}: LFN not matched by refat: {:?}", name, lf.ent.lfn),
            )?;
            // the crate mounts it, lists the same names and reads the same bytes
            let cfg = make_cfg(img, Front::Raw, false);
            let mut w = World::new(cfg.clone());
            for o in [
                Op::OpenVol { v: 0 },
                Op::OpenRoot { v: 0, d: 0 },
                Op::List { d: 0 },
                Op::OpenDir { p: 0, name: 5, d: 1 },
                Op::List { d: 1 },
                Op::OpenDir { p: 1, name: 6, d: 2 },
                Op::List { d: 2 },
                Op::Open { d: 0, name: 2, mode: 0, f: 0 },
                Op::Read { f: 0, n: 5000 },
                Op::Close { f: 0 },
                Op::OpenDir { p: 2, name: 9, d: 3 },
                Op::List { d: 3 },
            ] {
                let st = w.apply(o, true);
                check(st.res.is_ok(), format!("{}: crate {:?} -> {}", name, o, st.res.class()))?;
                check(st.findings.is_empty(), format!("{}: crate vs model on mkfs image: {:?} {:?}", name, o, st.findings))?;
            }
            let _ = img_check(&cfg.base);
        }
    }
    Ok(())
}

fn img_check(_b: &BaseImage) -> bool {
    true
}

/// Fingerprints must see the implementation's hidden cursor state.
pub fn fingerprint_test() -> Result<(), String> {
    let img = scen::build(scen::g_v16a(), &Default::default());
    let cfg = make_cfg(img, Front::Raw, false);
    let pre = [Op::OpenVol { v: 0 }, Op::OpenRoot { v: 0, d: 0 }, Op::Open { d: 0, name: 2, mode: 0, f: 0 }];
    let run = |ops: &[Op]| {
        let mut w = World::new(cfg.clone());
        for o in pre.iter().chain(ops.iter()) {
            w.apply(*o, false);
        }
        w.fingerprint()
    };
    // both end at offset 0 with identical model state, but the first has walked the chain
    let a = run(&[Op::SeekStart { f: 0, o: 1100 }, Op::Read { f: 0, n: 1 }, Op::SeekStart { f: 0, o: 0 }]);
    let b = run(&[Op::SeekStart { f: 0, o: 0 }]);
    let a2 = run(&[Op::SeekStart { f: 0, o: 1100 }, Op::Read { f: 0, n: 1 }, Op::SeekStart { f: 0, o: 0 }]);
    check(a != b, "fingerprint does not see the cached (offset, cluster) pair".into())?;
    check(a == a2, "fingerprint is not deterministic".into())?;
    let _ = cfg.base.rd(0);
    Ok(())
}

/// Machinery-only self-tests (no call into the crate under test): a failure here is exit 2, never a verdict.
pub fn run_machinery(verbose: bool) -> i32 {
    let tests: [(&str, fn() -> Result<(), String>); 2] = [("refat-vs-repo-image", repo_image_refat_test), ("mkfs-vs-refat", mkfs_refat_test)];
    for (n, t) in tests {
        match t() {
            Ok(()) => {
                if verbose {
                    println!("selftest {}: ok", n)
                }
            }
            Err(e) => {
                eprintln!("MACHINERY FAILURE (not a verdict): selftest {}: {}", n, e);
                return 2;
            }
        }
    }
    0
}

/// Self-tests that run the crate under test on the reference images. When they fail the *crate* may be at fault
/// (e.g. a change that mislocates single-FAT volumes), so they are reported, not treated as machinery failures;
/// C15 turns them into violations.
pub fn crate_on_reference_images() -> Vec<(String, String)> {
    let mut out = Vec::new();
    // (the fingerprint test is not among them: what the crate's Debug output shows is no property of the crate; see
    // `note_fingerprint_quality`)
    let tests: [(&str, fn() -> Result<(), String>); 2] = [("crate-reads-repo-image", repo_image_test), ("crate-reads-mkfs-images", mkfs_test)];
    for (n, t) in tests {
        match crate::util::catch_quiet(t) {
            crate::util::Caught::Ok(Ok(())) => {}
            crate::util::Caught::Ok(Err(e)) => out.push((n.to_string(), e)),
            crate::util::Caught::Panic(m) => out.push((n.to_string(), format!("panic: {}", m))),
        }
    }
    out
}

pub fn run(verbose: bool) -> i32 {
    let rc = run_machinery(verbose);
    if rc != 0 {
        return rc;
    }
    let bad = crate_on_reference_images();
    for (n, e) in &bad {
        eprintln!("selftest {} (crate under test on reference images): {}", n, e);
    }
    if verbose && bad.is_empty() {
        println!("selftest crate-on-reference-images: ok");
    }
    let _ = FsInfo::Correct;
    if bad.is_empty() {
        0
    } else {
        1
    }
}

fn repo_image_refat_test() -> Result<(), String> {
    let img = load_repo_image()?;
    for (slot, fat32) in [(0usize, false), (1usize, true)] {
        let v = refat::locate(&img, slot)?;
        check(v.fat32 == fat32, format!("partition {} fat32={}", slot, v.fat32))?;
        let fat = refat::read_fat(&img, &v, 0);
        let t = refat::walk(&img, &v, &fat);
        check(t.problems.is_empty(), format!("refat finds problems in the reference image: {:?}", t.problems))?;
        for (p, sz) in [("/README.TXT", 258u32), ("/EMPTY.DAT", 0), ("/64MB.DAT", 67108864), ("/TEST/TEST.DAT", 3500)] {
            let n = t.find(p).ok_or(format!("refat: {} missing on partition {}", p, slot))?;
            check(n.ent.size == sz, format!("{} size {}", p, n.ent.size))?;
        }
    }
    Ok(())
}

fn mkfs_refat_test() -> Result<(), String> {
    for (name, g) in [("V16a", scen::g_v16a()), ("V16b", scen::g_v16b()), ("V32a", scen::g_v32a()), ("V32b", scen::g_v32b())] {
        let img = scen::build(g.clone(), &scen::TreeOpts { free: Some(2), ..Default::default() });
        let v = refat::locate(&img, 0).map_err(|e| format!("{}: refat cannot locate: {}", name, e))?;
        check(v.fat32 == g.fat32 && v.clusters == g.clusters, format!("{}: geometry mismatch", name))?;
        let fat = refat::read_fat(&img, &v, 0);
        let t = refat::walk(&img, &v, &fat);
        check(t.problems.is_empty(), format!("{}: refat problems in mkfs image: {:?}", name, t.problems))?;
        check(refat::count_free(&fat, &v) == 2, format!("{}: free count", name))?;
    }
    Ok(())
}

/// What the crate's Debug output shows is no property of the crate: when it no longer shows the hidden cursor state,
/// or panics, the explorers record that in the evidence and go on with a coarser state fingerprint.
pub fn note_fingerprint_quality() {
    if !matches!(crate::util::catch_quiet(fingerprint_test), crate::util::Caught::Ok(Ok(()))) {
        crate::util::DEBUG_PANICKED.store(true, std::sync::atomic::Ordering::Relaxed);
    }
}
