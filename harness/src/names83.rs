//! Independent 8.3 short-name acceptor/normaliser written from the property
//! text (C18) and the FAT specification. Does not call the crate.

/// Result of the reference parse.
#[derive(Clone, Debug, PartialEq, Eq)]
pub enum Ref83 {
    /// Exactly these 11 bytes.
    Name([u8; 11]),
    /// Accepted; each position lists the acceptable byte values (Latin-1
    /// lower-case letters: the property says "upper-cases", the crate's
    /// comment says ASCII only — both are accepted).
    Either([Vec<u8>; 11]),
    Reject,
}

fn forbidden(c: char) -> bool {
    matches!(
        c,
        '\u{0000}'..='\u{001F}'
            | '"'
            | '*'
            | '+'
            | ','
            | '/'
            | ':'
            | ';'
            | '<'
            | '='
            | '>'
            | '?'
            | '['
            | '\\'
            | ']'
            | '|'
            | ' '
    )
}

/// Latin-1 lower-case letters that have an upper-case partner inside Latin-1.
fn latin1_lower(c: u8) -> bool {
    (0xE0..=0xFE).contains(&c) && c != 0xF7
}

pub fn parse83(s: &str) -> Ref83 {
    // Documented special cases of the crate: "" and "." mean this directory, ".." the parent.
    if s == ".." {
        return Ref83::Name(*b"..         ");
    }
    if s.is_empty() || s == "." {
        return Ref83::Name(*b".          ");
    }
    let chars: Vec<char> = s.chars().collect();
    let dots = chars.iter().filter(|&&c| c == '.').count();
    if dots > 1 {
        return Ref83::Reject;
    }
    let (base, ext): (&[char], &[char]) = match chars.iter().position(|&c| c == '.') {
        Some(p) => (&chars[..p], &chars[p + 1..]),
        None => (&chars[..], &[]),
    };
    if base.is_empty() || base.len() > 8 || ext.len() > 3 {
        return Ref83::Reject;
    }
    let mut pos: [Vec<u8>; 11] = Default::default();
    for p in pos.iter_mut() {
        *p = vec![b' '];
    }
    let mut ambiguous = false;
    let mut put = |i: usize, c: char, pos: &mut [Vec<u8>; 11], amb: &mut bool| -> bool {
        if forbidden(c) || (c as u32) > 0xFF {
            return false;
        }
        let b = c as u32 as u8;
        if b.is_ascii_lowercase() {
            pos[i] = vec![b.to_ascii_uppercase()];
        } else if latin1_lower(b) {
            pos[i] = vec![b, b - 0x20];
            *amb = true;
        } else {
            pos[i] = vec![b];
        }
        true
    };
    for (i, &c) in base.iter().enumerate() {
        if !put(i, c, &mut pos, &mut ambiguous) {
            return Ref83::Reject;
        }
    }
    for (i, &c) in ext.iter().enumerate() {
        if !put(8 + i, c, &mut pos, &mut ambiguous) {
            return Ref83::Reject;
        }
    }
    if ambiguous {
        Ref83::Either(pos)
    } else {
        let mut n = [0u8; 11];
        for i in 0..11 {
            n[i] = pos[i][0];
        }
        Ref83::Name(n)
    }
}

/// Convenience for the file-system model: the 11 bytes or None.
pub fn norm83(s: &str) -> Option<[u8; 11]> {
    match parse83(s) {
        Ref83::Name(n) => Some(n),
        Ref83::Either(p) => {
            let mut n = [0u8; 11];
            for i in 0..11 {
                n[i] = p[i][0];
            }
            Some(n)
        }
        Ref83::Reject => None,
    }
}
