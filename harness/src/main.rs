//! sdmmc-mc: bounded-exhaustive model checking of embedded-sdmmc against the
//! 19 given properties. Usage: sdmmc-mc <Cxx> <quick|thorough> | --replay <file> | selftest

use sdmmc_mc::{props, selftest, util};

fn main() {
    util::install_panic_hook();
    let args: Vec<String> = std::env::args().collect();
    if args.len() < 2 {
        eprintln!("usage: sdmmc-mc <Cxx> <quick|thorough> | --replay <file> | selftest");
        std::process::exit(2);
    }
    let code = match args[1].as_str() {
        "selftest" => selftest::run(true),
        "--replay" => props::replay(&args[2]),
        "--probe" => props::probe(&args[2]),
        id => {
            let tier = args.get(2).map(|s| s.as_str()).unwrap_or("quick");
            if tier != "quick" && tier != "thorough" {
                eprintln!("tier must be quick or thorough");
                std::process::exit(2);
            }
            props::run(id, tier)
        }
    };
    std::process::exit(code);
}
