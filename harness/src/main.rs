//! sdmmc-mc: bounded-exhaustive model checking of embedded-sdmmc against the
//! 19 given properties. Usage: sdmmc-mc <Cxx> <quick|thorough> | --replay <file> | selftest

use sdmmc_mc::{props, selftest, util};

fn main() {
    util::install_panic_hook();
    let args: Vec<String> = std::env::args().collect();
    if args.len() < 2 {
        eprintln!("usage: sdmmc-mc <Cxx> <quick|thorough> | --replay <file> | selftest");
        std::process::exit(2);
    }
    // a panic that escapes the harness itself (not one of the subject, those are caught where they are judged) is a
    // machinery failure: exit 2, never a verdict
    let r = std::panic::catch_unwind(|| match args[1].as_str() {
        "selftest" => selftest::run(true),
        "--replay" => props::replay(&args[2]),
        "--probe" => props::probe(&args[2]),
        id => {
            let tier = args.get(2).map(|s| s.as_str()).unwrap_or("quick");
            if tier != "quick" && tier != "thorough" {
                eprintln!("tier must be quick or thorough");
                std::process::exit(2);
            }
            props::run(id, tier)
        }
    });
    let code = match r {
        Ok(c) => c,
        Err(e) => {
            let msg = e.downcast_ref::<String>().cloned().or_else(|| e.downcast_ref::<&str>().map(|s| s.to_string())).unwrap_or_default();
            eprintln!("MACHINERY FAILURE (not a verdict): the harness panicked: {}", msg);
            2
        }
    };
    std::process::exit(code);
}
