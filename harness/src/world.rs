//! The FAT-side world: a real `VolumeManager` over a `SimDisk`, a slot table
//! for handles, and the boring reference model (fsmodel) of API-visible
//! behaviour. `World::apply` executes one operation on both and reports every
//! API-level disagreement.

use crate::names83::norm83;
use crate::refat;
use crate::simdisk::{BaseImage, Call, Clock, DevErr, Image, Rd, SimDisk};
use crate::util::{catch_quiet, mix64, Caught, FpHasher};
use embedded_sdmmc::{Mode, RawDirectory, RawFile, RawVolume, VolumeIdx, VolumeManager};
use std::collections::BTreeMap;
use std::sync::Arc;

pub const ND: usize = 4;
pub const NF: usize = 4;
pub const NV: usize = 2;
pub type VM = VolumeManager<SimDisk, Clock, ND, NF, NV>;

/// Mirror of the crate's error enum (discriminant only).
#[derive(Clone, Copy, Debug, PartialEq, Eq, Hash, PartialOrd, Ord)]
pub enum E {
    DeviceError,
    FormatError,
    NoSuchVolume,
    FilenameError,
    TooManyOpenVolumes,
    TooManyOpenDirs,
    TooManyOpenFiles,
    BadHandle,
    NotFound,
    FileAlreadyOpen,
    DirAlreadyOpen,
    OpenedDirAsFile,
    OpenedFileAsDir,
    DeleteDirAsFile,
    VolumeStillInUse,
    VolumeAlreadyOpen,
    Unsupported,
    EndOfFile,
    BadCluster,
    ConversionError,
    NotEnoughSpace,
    AllocationError,
    UnterminatedFatChain,
    ReadOnly,
    FileAlreadyExists,
    BadBlockSize,
    InvalidOffset,
    DiskFull,
    DirAlreadyExists,
    LockError,
}

pub fn map_err(e: &embedded_sdmmc::Error<DevErr>) -> E {
    use embedded_sdmmc::Error as X;
    match e {
        X::DeviceError(_) => E::DeviceError,
        X::FormatError(_) => E::FormatError,
        X::NoSuchVolume => E::NoSuchVolume,
        X::FilenameError(_) => E::FilenameError,
        X::TooManyOpenVolumes => E::TooManyOpenVolumes,
        X::TooManyOpenDirs => E::TooManyOpenDirs,
        X::TooManyOpenFiles => E::TooManyOpenFiles,
        X::BadHandle => E::BadHandle,
        X::NotFound => E::NotFound,
        X::FileAlreadyOpen => E::FileAlreadyOpen,
        X::DirAlreadyOpen => E::DirAlreadyOpen,
        X::OpenedDirAsFile => E::OpenedDirAsFile,
        X::OpenedFileAsDir => E::OpenedFileAsDir,
        X::DeleteDirAsFile => E::DeleteDirAsFile,
        X::VolumeStillInUse => E::VolumeStillInUse,
        X::VolumeAlreadyOpen => E::VolumeAlreadyOpen,
        X::Unsupported => E::Unsupported,
        X::EndOfFile => E::EndOfFile,
        X::BadCluster => E::BadCluster,
        X::ConversionError => E::ConversionError,
        X::NotEnoughSpace => E::NotEnoughSpace,
        X::AllocationError => E::AllocationError,
        X::UnterminatedFatChain => E::UnterminatedFatChain,
        X::ReadOnly => E::ReadOnly,
        X::FileAlreadyExists => E::FileAlreadyExists,
        X::BadBlockSize(_) => E::BadBlockSize,
        X::InvalidOffset => E::InvalidOffset,
        X::DiskFull => E::DiskFull,
        X::DirAlreadyExists => E::DirAlreadyExists,
        X::LockError => E::LockError,
    }
}

pub const MODES: [Mode; 6] = [
    Mode::ReadOnly,
    Mode::ReadWriteAppend,
    Mode::ReadWriteTruncate,
    Mode::ReadWriteCreate,
    Mode::ReadWriteCreateOrTruncate,
    Mode::ReadWriteCreateOrAppend,
];
pub const M_RO: u8 = 0;
pub const M_APPEND: u8 = 1;
pub const M_TRUNC: u8 = 2;
pub const M_CREATE: u8 = 3;
pub const M_CREATE_TRUNC: u8 = 4;
pub const M_CREATE_APPEND: u8 = 5;
pub const MODE_NAMES: [&str; 6] = ["ReadOnly", "Append", "Truncate", "Create", "CreateOrTruncate", "CreateOrAppend"];

/// Name universe used by the alphabets (index = `name` field of an Op).
pub const NAMES: &[&str] = &[
    "A.TXT",       // 0
    "B.DAT",       // 1
    "OLD.DAT",     // 2
    "RO.DAT",      // 3
    "EMPTY.DAT",   // 4
    "SUB",         // 5
    "DEEP",        // 6
    "D",           // 7
    ".",           // 8
    "..",          // 9
    "a.txt",       // 10 lower-case spelling of 0
    "BAD*NAME",    // 11 invalid character
    "TOOLONGNAME", // 12 base too long
    "NOPE.BIN",    // 13 never present
    "A.B.C",       // 14 two periods
    "X.TOOL",      // 15 extension too long
    "GROW.DIR",    // 16
    "C.BIN",       // 17
    "E.BIN",       // 18
    "F.BIN",       // 19
    "BALLAST.BIN", // 20
    "LFNSPELL",    // 21
    "FILE0001.TXT",// 22
    "FIRST.DAT",   // 23
    "LAST.DAT",    // 24
    "IN.DAT",      // 25
    "ALGN.DAT",    // 26 exactly three clusters, fragmented
    "HIGH.DAT",    // 27 SUB/DEEP/HIGH.DAT on large FAT32 volumes: clusters 65535 -> 65536
];

#[derive(Clone, Copy, Debug, PartialEq, Eq, Hash, PartialOrd, Ord)]
pub enum Op {
    OpenVol { v: u8 },
    CloseVol { v: u8 },
    OpenRoot { v: u8, d: u8 },
    OpenDir { p: u8, name: u8, d: u8 },
    CloseDir { d: u8 },
    Open { d: u8, name: u8, mode: u8, f: u8 },
    Write { f: u8, n: u32 },
    Read { f: u8, n: u32 },
    SeekStart { f: u8, o: u32 },
    SeekCur { f: u8, o: i32 },
    SeekEnd { f: u8, o: u32 },
    Flush { f: u8 },
    Close { f: u8 },
    Delete { d: u8, name: u8 },
    Mkdir { d: u8, name: u8 },
    /// write cluster-sized chunks until the first error
    Fill { f: u8 },
    List { d: u8 },
    Find { d: u8, name: u8 },
}

impl Op {
    pub fn kind(&self) -> &'static str {
        match self {
            Op::OpenVol { .. } => "open_volume",
            Op::CloseVol { .. } => "close_volume",
            Op::OpenRoot { .. } => "open_root_dir",
            Op::OpenDir { .. } => "open_dir",
            Op::CloseDir { .. } => "close_dir",
            Op::Open { .. } => "open_file",
            Op::Write { .. } => "write",
            Op::Read { .. } => "read",
            Op::SeekStart { .. } => "seek_start",
            Op::SeekCur { .. } => "seek_current",
            Op::SeekEnd { .. } => "seek_end",
            Op::Flush { .. } => "flush",
            Op::Close { .. } => "close_file",
            Op::Delete { .. } => "delete_file",
            Op::Mkdir { .. } => "make_dir",
            Op::Fill { .. } => "fill",
            Op::List { .. } => "iterate_dir",
            Op::Find { .. } => "find_directory_entry",
        }
    }
    pub fn show(&self) -> String {
        match *self {
            Op::OpenDir { p, name, d } => format!("open_dir(d{}, {:?}) -> d{}", p, NAMES[name as usize], d),
            Op::Open { d, name, mode, f } => format!(
                "open_file(d{}, {:?}, {}) -> f{}",
                d, NAMES[name as usize], MODE_NAMES[mode as usize], f
            ),
            Op::Delete { d, name } => format!("delete_file(d{}, {:?})", d, NAMES[name as usize]),
            Op::Mkdir { d, name } => format!("make_dir(d{}, {:?})", d, NAMES[name as usize]),
            Op::Find { d, name } => format!("find(d{}, {:?})", d, NAMES[name as usize]),
            o => format!("{:?}", o),
        }
    }
    pub fn to_json(&self) -> serde_json::Value {
        use serde_json::json;
        match *self {
            Op::OpenVol { v } => json!({"op":"OpenVol","v":v}),
            Op::CloseVol { v } => json!({"op":"CloseVol","v":v}),
            Op::OpenRoot { v, d } => json!({"op":"OpenRoot","v":v,"d":d}),
            Op::OpenDir { p, name, d } => json!({"op":"OpenDir","p":p,"name":name,"d":d,"name_str":NAMES[name as usize]}),
            Op::CloseDir { d } => json!({"op":"CloseDir","d":d}),
            Op::Open { d, name, mode, f } => {
                json!({"op":"Open","d":d,"name":name,"mode":mode,"f":f,"name_str":NAMES[name as usize],"mode_str":MODE_NAMES[mode as usize]})
            }
            Op::Write { f, n } => json!({"op":"Write","f":f,"n":n}),
            Op::Read { f, n } => json!({"op":"Read","f":f,"n":n}),
            Op::SeekStart { f, o } => json!({"op":"SeekStart","f":f,"o":o}),
            Op::SeekCur { f, o } => json!({"op":"SeekCur","f":f,"o":o}),
            Op::SeekEnd { f, o } => json!({"op":"SeekEnd","f":f,"o":o}),
            Op::Flush { f } => json!({"op":"Flush","f":f}),
            Op::Close { f } => json!({"op":"Close","f":f}),
            Op::Delete { d, name } => json!({"op":"Delete","d":d,"name":name,"name_str":NAMES[name as usize]}),
            Op::Mkdir { d, name } => json!({"op":"Mkdir","d":d,"name":name,"name_str":NAMES[name as usize]}),
            Op::Fill { f } => json!({"op":"Fill","f":f}),
            Op::List { d } => json!({"op":"List","d":d}),
            Op::Find { d, name } => json!({"op":"Find","d":d,"name":name,"name_str":NAMES[name as usize]}),
        }
    }
    pub fn from_json(v: &serde_json::Value) -> Option<Op> {
        let g = |k: &str| v.get(k).and_then(|x| x.as_i64());
        let u = |k: &str| g(k).map(|x| x as u8);
        Some(match v.get("op")?.as_str()? {
            "OpenVol" => Op::OpenVol { v: u("v")? },
            "CloseVol" => Op::CloseVol { v: u("v")? },
            "OpenRoot" => Op::OpenRoot { v: u("v")?, d: u("d")? },
            "OpenDir" => Op::OpenDir { p: u("p")?, name: u("name")?, d: u("d")? },
            "CloseDir" => Op::CloseDir { d: u("d")? },
            "Open" => Op::Open { d: u("d")?, name: u("name")?, mode: u("mode")?, f: u("f")? },
            "Write" => Op::Write { f: u("f")?, n: g("n")? as u32 },
            "Read" => Op::Read { f: u("f")?, n: g("n")? as u32 },
            "SeekStart" => Op::SeekStart { f: u("f")?, o: g("o")? as u32 },
            "SeekCur" => Op::SeekCur { f: u("f")?, o: g("o")? as i32 },
            "SeekEnd" => Op::SeekEnd { f: u("f")?, o: g("o")? as u32 },
            "Flush" => Op::Flush { f: u("f")? },
            "Close" => Op::Close { f: u("f")? },
            "Delete" => Op::Delete { d: u("d")?, name: u("name")? },
            "Mkdir" => Op::Mkdir { d: u("d")?, name: u("name")? },
            "Fill" => Op::Fill { f: u("f")? },
            "List" => Op::List { d: u("d")? },
            "Find" => Op::Find { d: u("d")?, name: u("name")? },
            _ => return None,
        })
    }
}

/// What the implementation returned.
#[derive(Clone, Debug, PartialEq, Eq)]
pub enum Res {
    Ok,
    Data(Vec<u8>),
    /// Fill: bytes accepted, terminating error
    Filled(u64, E),
    Listing(Vec<ListEnt>),
    Found(ListEnt),
    Err(E),
    Panic(String),
}

impl Res {
    pub fn is_ok(&self) -> bool {
        matches!(self, Res::Ok | Res::Data(_) | Res::Filled(..) | Res::Listing(_) | Res::Found(_))
    }
    pub fn class(&self) -> String {
        match self {
            Res::Ok => "Ok".into(),
            Res::Data(d) => format!("Ok({}B)", d.len()),
            Res::Filled(n, e) => format!("Filled({},{:?})", n, e),
            Res::Listing(l) => format!("Listing({})", l.len()),
            Res::Found(_) => "Found".into(),
            Res::Err(e) => format!("Err({:?})", e),
            Res::Panic(m) => format!("Panic({})", m),
        }
    }
}

/// A directory entry as reported by the crate.
#[derive(Clone, Debug, PartialEq, Eq)]
pub struct ListEnt {
    pub name: [u8; 11],
    pub attr: u8,
    pub size: u32,
    pub ctime: (u32, u32, u32, u32, u32, u32),
    pub mtime: (u32, u32, u32, u32, u32, u32),
    pub cluster_dbg: String,
    pub cluster_is_empty: bool,
    pub cluster_is_root: bool,
    pub entry_block: u32,
    pub entry_offset: u32,
    pub lfn: Option<String>,
}

pub fn ts_tuple(t: &embedded_sdmmc::Timestamp) -> (u32, u32, u32, u32, u32, u32) {
    (
        t.year_since_1970 as u32 + 1970,
        t.zero_indexed_month as u32 + 1,
        t.zero_indexed_day as u32 + 1,
        t.hours as u32,
        t.minutes as u32,
        t.seconds as u32,
    )
}

pub fn list_ent(de: &embedded_sdmmc::DirEntry, lfn: Option<&str>) -> ListEnt {
    // The 11 raw bytes are crate-private; the volume-label view returns them minus trailing
    // ASCII white space, which we pad back.
    let mut name = [b' '; 11];
    let vl = unsafe { de.name.clone().to_volume_label() };
    let raw = vl.name();
    name[..raw.len()].copy_from_slice(raw);
    let attr = {
        let a = de.attributes;
        (a.is_read_only() as u8)
            | ((a.is_hidden() as u8) << 1)
            | ((a.is_system() as u8) << 2)
            | ((a.is_volume() as u8) << 3)
            | ((a.is_directory() as u8) << 4)
            | ((a.is_archive() as u8) << 5)
    };
    ListEnt {
        name,
        attr,
        size: de.size,
        ctime: ts_tuple(&de.ctime),
        mtime: ts_tuple(&de.mtime),
        cluster_dbg: format!("{:?}", de.cluster),
        cluster_is_empty: de.cluster == embedded_sdmmc::ClusterId::EMPTY,
        cluster_is_root: de.cluster == embedded_sdmmc::ClusterId::ROOT_DIR,
        entry_block: de.entry_block.0,
        entry_offset: de.entry_offset,
        lfn: lfn.map(|s| s.to_string()),
    }
}

// ---------------------------------------------------------------------------
// Model
// ---------------------------------------------------------------------------

#[derive(Clone, Copy, Debug, PartialEq, Eq, Hash)]
pub enum Ts {
    /// raw (date, time) written by the formatter
    Raw(u16, u16),
    /// logical clock tick of the call
    Tick(u32),
}

impl Ts {
    pub fn tuple(&self) -> (u32, u32, u32, u32, u32, u32) {
        match *self {
            Ts::Raw(d, t) => refat::decode_ts(d, t),
            Ts::Tick(n) => ts_tuple(&Clock::at(n)),
        }
    }
}

#[derive(Clone, Debug, PartialEq, Eq, Hash)]
pub struct MFile {
    pub data: Vec<u8>,
    pub attr: u8,
    pub ctime: Ts,
    pub mtime: Ts,
    /// contents guaranteed to be on the medium (flushed and not modified since); None = no claim
    pub durable: Option<Vec<u8>>,
    /// too large to model (ballast); never opened by alphabets
    pub opaque: bool,
    pub touched: bool,
    pub open: bool,
}

#[derive(Clone, Debug, PartialEq, Eq, Hash)]
pub struct MDir {
    pub ch: BTreeMap<[u8; 11], MNode>,
    pub ctime: Ts,
    pub mtime: Ts,
    pub touched: bool,
}

#[derive(Clone, Debug, PartialEq, Eq, Hash)]
pub enum MNode {
    File(MFile),
    Dir(MDir),
}

#[derive(Clone, Debug, PartialEq, Eq, Hash)]
pub struct MF {
    pub vol: u8,
    pub dir: Vec<[u8; 11]>,
    pub name: [u8; 11],
    pub mode: u8,
    pub off: u32,
    pub wseq: u32,
    /// written through this handle since open (the crate's dirty flag)
    pub dirty: bool,
}

#[derive(Clone, Debug, PartialEq, Eq, Hash)]
pub struct MD {
    pub vol: u8,
    pub path: Vec<[u8; 11]>,
}

#[derive(Clone, Debug, PartialEq, Eq, Hash)]
pub struct Model {
    /// per partition slot (0..4): the tree, if a FAT volume lives there
    pub vols: Vec<Option<MDir>>,
    pub vol_open: [bool; 4],
    pub dirs: [Option<MD>; ND],
    pub files: [Option<MF>; NF],
    pub diverged: bool,
}

pub fn key_str(k: &[u8; 11]) -> String {
    refat::name_to_string(k)
}

impl Model {
    pub fn dir<'a>(&'a self, vol: u8, path: &[[u8; 11]]) -> Option<&'a MDir> {
        let mut d = self.vols[vol as usize].as_ref()?;
        for p in path {
            match d.ch.get(p)? {
                MNode::Dir(x) => d = x,
                _ => return None,
            }
        }
        Some(d)
    }
    pub fn dir_mut<'a>(&'a mut self, vol: u8, path: &[[u8; 11]]) -> Option<&'a mut MDir> {
        let mut d = self.vols[vol as usize].as_mut()?;
        for p in path {
            match d.ch.get_mut(p)? {
                MNode::Dir(x) => d = x,
                _ => return None,
            }
        }
        Some(d)
    }
    pub fn file_mut(&mut self, h: &MF) -> Option<&mut MFile> {
        match self.dir_mut(h.vol, &h.dir)?.ch.get_mut(&h.name)? {
            MNode::File(f) => Some(f),
            _ => None,
        }
    }
    pub fn file(&self, h: &MF) -> Option<&MFile> {
        match self.dir(h.vol, &h.dir)?.ch.get(&h.name)? {
            MNode::File(f) => Some(f),
            _ => None,
        }
    }
    pub fn n_open_dirs(&self) -> usize {
        self.dirs.iter().filter(|d| d.is_some()).count()
    }
    pub fn n_open_files(&self) -> usize {
        self.files.iter().filter(|d| d.is_some()).count()
    }
    pub fn n_open_vols(&self) -> usize {
        self.vol_open.iter().filter(|d| **d).count()
    }
    pub fn any_file_open(&self) -> bool {
        self.n_open_files() > 0
    }

    /// Build the initial model by reading the base image with refat.
    pub fn from_image(img: &dyn Rd) -> Model {
        let mut vols = Vec::new();
        for slot in 0..4 {
            let v = match refat::locate(img, slot) {
                Ok(v) => v,
                Err(_) => {
                    vols.push(None);
                    continue;
                }
            };
            let fat = refat::read_fat(img, &v, 0);
            let tree = refat::walk(img, &v, &fat);
            let mut root = MDir {
                ch: BTreeMap::new(),
                ctime: Ts::Raw(0, 0),
                mtime: Ts::Raw(0, 0),
                touched: false,
            };
            // nodes are in pre-order; insert by path
            for n in &tree.nodes {
                let comps: Vec<[u8; 11]> = path_keys(&tree, n);
                let (last, dirp) = comps.split_last().unwrap();
                let mut d = &mut root;
                for p in dirp {
                    d = match d.ch.get_mut(p) {
                        Some(MNode::Dir(x)) => x,
                        _ => unreachable!(),
                    };
                }
                let node = if n.is_dir {
                    MNode::Dir(MDir {
                        ch: BTreeMap::new(),
                        ctime: Ts::Raw(n.ent.cdate, n.ent.ctime),
                        mtime: Ts::Raw(n.ent.wdate, n.ent.wtime),
                        touched: false,
                    })
                } else {
                    let opaque = n.ent.size > (1 << 20);
                    let data = if opaque { vec![] } else { refat::file_bytes(img, &v, n) };
                    MNode::File(MFile {
                        durable: if opaque { None } else { Some(data.clone()) },
                        data,
                        attr: n.ent.attr,
                        ctime: Ts::Raw(n.ent.cdate, n.ent.ctime),
                        mtime: Ts::Raw(n.ent.wdate, n.ent.wtime),
                        opaque,
                        touched: false,
                        open: false,
                    })
                };
                d.ch.insert(*last, node);
            }
            vols.push(Some(root));
        }
        Model {
            vols,
            vol_open: [false; 4],
            dirs: Default::default(),
            files: Default::default(),
            diverged: false,
        }
    }

    pub fn hash_into(&self, h: &mut FpHasher) {
        use std::hash::{Hash, Hasher};
        #[allow(deprecated)]
        let mut s = std::collections::hash_map::DefaultHasher::new();
        self.hash(&mut s);
        h.u64(s.finish());
    }
}

fn path_keys(tree: &refat::Tree, n: &refat::Node) -> Vec<[u8; 11]> {
    let mut out = vec![n.ent.name];
    let mut p = n.parent;
    while let Some(i) = p {
        out.push(tree.nodes[i].ent.name);
        p = tree.nodes[i].parent;
    }
    out.reverse();
    out
}

/// Payload byte for write `wseq` through file slot `f` at absolute file offset `off`.
#[inline]
pub fn payload(f: u8, wseq: u32, off: u32) -> u8 {
    (mix64(((f as u64) << 56) ^ ((wseq as u64) << 32) ^ off as u64) >> 13) as u8
}

#[derive(Clone, Debug, PartialEq, Eq)]
pub struct Finding {
    /// property-independent clause tag, e.g. "read/data", "open/result"
    pub clause: &'static str,
    pub detail: String,
}

#[derive(Clone, Copy, Debug, PartialEq, Eq)]
pub enum Front {
    Raw,
    Raii,
    Eio,
    /// like Raii, but files and directories are closed by dropping the wrapper (Drop = close ignoring the error)
    /// and volumes are opened through `open_volume`
    Drop,
}

pub struct WorldCfg {
    pub base: Arc<BaseImage>,
    pub model0: Model,
    pub front: Front,
    pub id_offset: u32,
    /// use a moving clock (tick = step index + 1); otherwise the clock is constant
    pub moving_clock: bool,
    /// device-call horizon per API call
    pub horizon: u64,
}

pub struct World {
    pub vm: VM,
    pub disk: SimDisk,
    pub clock: Clock,
    pub tick: u32,
    pub vols: [Option<RawVolume>; 4],
    pub dirs: [Option<RawDirectory>; ND],
    pub files: [Option<RawFile>; NF],
    pub m: Model,
    pub cfg: Arc<WorldCfg>,
    pub dead: bool,
    pub steps: usize,
    /// every operation applied to this world so far (for the hang watchdog); `trace_base` = length of the prelude
    pub trace: Vec<Op>,
    pub trace_base: usize,
}

pub struct Step {
    pub op: Op,
    pub res: Res,
    pub findings: Vec<Finding>,
    pub pre: Option<Image>,
    pub post: Option<Image>,
    pub log: Vec<Call>,
    pub calls_before: u64,
}

type R<T> = Result<T, embedded_sdmmc::Error<DevErr>>;

fn lift<T>(c: Caught<R<T>>) -> Result<T, Res> {
    match c {
        Caught::Ok(Ok(v)) => Ok(v),
        Caught::Ok(Err(e)) => Err(Res::Err(map_err(&e))),
        Caught::Panic(m) => Err(Res::Panic(m)),
    }
}

impl World {
    pub fn new(cfg: Arc<WorldCfg>) -> World {
        let disk = SimDisk::new(Image::new(cfg.base.clone()));
        let clock = Clock::new();
        let vm: VM = VolumeManager::new_with_limits(disk.clone(), clock.clone(), cfg.id_offset);
        World {
            vm,
            disk,
            clock,
            tick: 0,
            vols: [None; 4],
            dirs: [None; ND],
            files: [None; NF],
            m: cfg.model0.clone(),
            cfg,
            dead: false,
            steps: 0,
            trace: Vec::new(),
            trace_base: 0,
        }
    }

    pub fn fingerprint(&self) -> crate::util::Fp {
        let mut h = FpHasher::new();
        h.str(&crate::util::debug_string(&self.vm));
        self.disk.0.borrow().img.hash_into(&mut h);
        self.m.hash_into(&mut h);
        // slot table occupancy (handle values are in the Debug string)
        for v in &self.vols {
            h.u64(v.is_some() as u64);
        }
        for v in &self.dirs {
            h.u64(v.is_some() as u64);
        }
        for v in &self.files {
            h.u64(v.is_some() as u64);
        }
        if self.cfg.moving_clock {
            h.u64(self.tick as u64);
        }
        h.finish()
    }

    /// Is `op` meaningful in the current state (all handle slots it names valid / target slots free)?
    pub fn enabled(&self, op: &Op) -> bool {
        let m = &self.m;
        match *op {
            Op::OpenVol { v } => self.vols[v as usize].is_none(),
            Op::CloseVol { v } => self.vols[v as usize].is_some(),
            Op::OpenRoot { v, d } => self.vols[v as usize].is_some() && self.dirs[d as usize].is_none(),
            Op::OpenDir { p, d, .. } => self.dirs[p as usize].is_some() && self.dirs[d as usize].is_none() && p != d,
            Op::CloseDir { d } => self.dirs[d as usize].is_some(),
            Op::Open { d, f, .. } => self.dirs[d as usize].is_some() && self.files[f as usize].is_none(),
            Op::Write { f, .. }
            | Op::Read { f, .. }
            | Op::SeekStart { f, .. }
            | Op::SeekCur { f, .. }
            | Op::SeekEnd { f, .. }
            | Op::Flush { f }
            | Op::Close { f }
            | Op::Fill { f } => self.files[f as usize].is_some() && m.files[f as usize].is_some(),
            Op::Delete { d, .. } | Op::Mkdir { d, .. } | Op::List { d } | Op::Find { d, .. } => {
                self.dirs[d as usize].is_some()
            }
        }
    }

    fn set_clock(&mut self) {
        if self.cfg.moving_clock {
            self.tick += 1;
        } else {
            self.tick = 1;
        }
        self.clock.set(self.tick);
    }

    /// Execute one operation on the implementation and on the model.
    pub fn apply(&mut self, op: Op, observe: bool) -> Step {
        if self.dead {
            // the subject panicked earlier in this history: nothing more can be executed on it
            return Step {
                op,
                res: Res::Panic("world is dead (an earlier call of this history panicked)".into()),
                findings: Vec::new(),
                pre: None,
                post: None,
                log: Vec::new(),
                calls_before: self.disk.calls(),
            };
        }
        self.set_clock();
        self.trace.push(op);
        crate::watchdog::begin(&self.trace[self.trace_base.min(self.trace.len() - 1)..]);
        let calls_before = self.disk.calls();
        let pre = if observe { Some(self.disk.image()) } else { None };
        {
            let mut st = self.disk.0.borrow_mut();
            st.logging = observe;
            st.log.clear();
            st.horizon = calls_before.saturating_add(self.cfg.horizon);
        }
        let res = self.exec(op);
        crate::watchdog::end();
        self.disk.set_horizon(u64::MAX);
        if matches!(res, Res::Panic(_)) {
            self.dead = true;
        }
        let mut findings = Vec::new();
        self.model_step(op, &res, &mut findings);
        if observe && !self.dead {
            self.check_handles(&mut findings);
        }
        let post = if observe { Some(self.disk.image()) } else { None };
        let log = self.disk.take_log();
        self.steps += 1;
        Step {
            op,
            res,
            findings,
            pre,
            post,
            log,
            calls_before,
        }
    }

    // ---- implementation side --------------------------------------------

    fn exec(&mut self, op: Op) -> Res {
        let vm = &self.vm;
        let front = self.cfg.front;
        match op {
            Op::OpenVol { v } => match lift(catch_quiet(|| {
                if front == Front::Drop {
                    vm.open_volume(VolumeIdx(v as usize)).map(|x| x.to_raw_volume())
                } else {
                    vm.open_raw_volume(VolumeIdx(v as usize))
                }
            })) {
                Ok(h) => {
                    self.vols[v as usize] = Some(h);
                    Res::Ok
                }
                Err(r) => r,
            },
            Op::CloseVol { v } => {
                let h = self.vols[v as usize].unwrap();
                match lift(catch_quiet(|| vm.close_volume(h))) {
                    Ok(()) => {
                        self.vols[v as usize] = None;
                        Res::Ok
                    }
                    Err(r) => r,
                }
            }
            Op::OpenRoot { v, d } => {
                let h = self.vols[v as usize].unwrap();
                let r = match front {
                    Front::Raw => lift(catch_quiet(|| vm.open_root_dir(h))),
                    _ => lift(catch_quiet(|| {
                        let vol = h.to_volume(vm);
                        let r = vol.open_root_dir().map(|d| d.to_raw_directory());
                        let _ = vol.to_raw_volume();
                        r
                    })),
                };
                match r {
                    Ok(x) => {
                        self.dirs[d as usize] = Some(x);
                        Res::Ok
                    }
                    Err(r) => r,
                }
            }
            Op::OpenDir { p, name, d } => {
                let h = self.dirs[p as usize].unwrap();
                let nm = NAMES[name as usize];
                let r = match front {
                    Front::Raw => lift(catch_quiet(|| vm.open_dir(h, nm))),
                    _ => lift(catch_quiet(|| {
                        let dir = h.to_directory(vm);
                        let r = dir.open_dir(nm).map(|d| d.to_raw_directory());
                        let _ = dir.to_raw_directory();
                        r
                    })),
                };
                match r {
                    Ok(x) => {
                        self.dirs[d as usize] = Some(x);
                        Res::Ok
                    }
                    Err(r) => r,
                }
            }
            Op::CloseDir { d } => {
                let h = self.dirs[d as usize].unwrap();
                let r = match front {
                    Front::Raw => lift(catch_quiet(|| vm.close_dir(h))),
                    Front::Drop => lift(catch_quiet(|| {
                        drop(h.to_directory(vm));
                        Ok(())
                    })),
                    _ => lift(catch_quiet(|| h.to_directory(vm).close())),
                };
                match r {
                    Ok(()) => {
                        self.dirs[d as usize] = None;
                        Res::Ok
                    }
                    Err(r) => r,
                }
            }
            Op::Open { d, name, mode, f } => {
                let h = self.dirs[d as usize].unwrap();
                let nm = NAMES[name as usize];
                let md = MODES[mode as usize];
                let r = match front {
                    Front::Raw => lift(catch_quiet(|| vm.open_file_in_dir(h, nm, md))),
                    _ => lift(catch_quiet(|| {
                        let dir = h.to_directory(vm);
                        let r = dir.open_file_in_dir(nm, md).map(|f| f.to_raw_file());
                        let _ = dir.to_raw_directory();
                        r
                    })),
                };
                match r {
                    Ok(x) => {
                        self.files[f as usize] = Some(x);
                        Res::Ok
                    }
                    Err(r) => r,
                }
            }
            Op::Write { f, n } => {
                let h = self.files[f as usize].unwrap();
                let (off, wseq) = {
                    let mf = self.m.files[f as usize].as_ref().unwrap();
                    (mf.off, mf.wseq)
                };
                let buf: Vec<u8> = (0..n).map(|i| payload(f, wseq, off.wrapping_add(i))).collect();
                let r = match front {
                    Front::Raw => lift(catch_quiet(|| vm.write(h, &buf))),
                    Front::Raii | Front::Drop => lift(catch_quiet(|| {
                        let fl = h.to_file(vm);
                        let r = fl.write(&buf);
                        let _ = fl.to_raw_file();
                        r
                    })),
                    Front::Eio => lift(catch_quiet(|| {
                        use embedded_io::Write;
                        let mut fl = h.to_file(vm);
                        let r = Write::write(&mut fl, &buf).map(|k| {
                            assert_eq!(k, buf.len(), "embedded-io write returned a short count");
                        });
                        let _ = fl.to_raw_file();
                        r
                    })),
                };
                match r {
                    Ok(()) => Res::Ok,
                    Err(r) => r,
                }
            }
            Op::Fill { f } => {
                let h = self.files[f as usize].unwrap();
                let (mut off, wseq) = {
                    let mf = self.m.files[f as usize].as_ref().unwrap();
                    (mf.off, mf.wseq)
                };
                let chunk = 512u32;
                let mut total = 0u64;
                loop {
                    let buf: Vec<u8> = (0..chunk).map(|i| payload(f, wseq, off.wrapping_add(i))).collect();
                    match lift(catch_quiet(|| vm.write(h, &buf))) {
                        Ok(()) => {
                            total += chunk as u64;
                            off += chunk;
                            if total > (64 << 20) {
                                return Res::Panic("fill did not terminate within 64 MiB".into());
                            }
                        }
                        Err(Res::Err(e)) => return Res::Filled(total, e),
                        Err(r) => return r,
                    }
                }
            }
            Op::Read { f, n } => {
                let h = self.files[f as usize].unwrap();
                let mut buf = vec![0xEEu8; n as usize];
                let r = match front {
                    Front::Raw => lift(catch_quiet(|| vm.read(h, &mut buf))),
                    Front::Raii | Front::Drop => lift(catch_quiet(|| {
                        let fl = h.to_file(vm);
                        let r = fl.read(&mut buf);
                        let _ = fl.to_raw_file();
                        r
                    })),
                    Front::Eio => lift(catch_quiet(|| {
                        use embedded_io::Read;
                        let mut fl = h.to_file(vm);
                        let r = Read::read(&mut fl, &mut buf);
                        let _ = fl.to_raw_file();
                        r
                    })),
                };
                match r {
                    Ok(k) => {
                        if k > buf.len() {
                            return Res::Panic(format!("read returned count {} > buffer {}", k, buf.len()));
                        }
                        // bytes beyond the count must be untouched
                        if buf[k..].iter().any(|&b| b != 0xEE) {
                            return Res::Panic("read modified buffer beyond returned count".into());
                        }
                        buf.truncate(k);
                        Res::Data(buf)
                    }
                    Err(r) => r,
                }
            }
            Op::SeekStart { f, o } => {
                let h = self.files[f as usize].unwrap();
                let r = match front {
                    Front::Raw => lift(catch_quiet(|| vm.file_seek_from_start(h, o))),
                    Front::Raii | Front::Drop => lift(catch_quiet(|| {
                        let fl = h.to_file(vm);
                        let r = fl.seek_from_start(o);
                        let _ = fl.to_raw_file();
                        r
                    })),
                    Front::Eio => lift(catch_quiet(|| {
                        use embedded_io::{Seek, SeekFrom};
                        let mut fl = h.to_file(vm);
                        let r = fl.seek(SeekFrom::Start(o as u64)).map(|p| {
                            assert_eq!(p, o as u64, "embedded-io seek returned wrong position");
                        });
                        let _ = fl.to_raw_file();
                        r
                    })),
                };
                match r {
                    Ok(()) => Res::Ok,
                    Err(r) => r,
                }
            }
            Op::SeekCur { f, o } => {
                let h = self.files[f as usize].unwrap();
                let r = match front {
                    Front::Raw => lift(catch_quiet(|| vm.file_seek_from_current(h, o))),
                    Front::Raii | Front::Drop => lift(catch_quiet(|| {
                        let fl = h.to_file(vm);
                        let r = fl.seek_from_current(o);
                        let _ = fl.to_raw_file();
                        r
                    })),
                    Front::Eio => lift(catch_quiet(|| {
                        use embedded_io::{Seek, SeekFrom};
                        let mut fl = h.to_file(vm);
                        let r = fl.seek(SeekFrom::Current(o as i64)).map(|_| ());
                        let _ = fl.to_raw_file();
                        r
                    })),
                };
                match r {
                    Ok(()) => Res::Ok,
                    Err(r) => r,
                }
            }
            Op::SeekEnd { f, o } => {
                let h = self.files[f as usize].unwrap();
                let r = match front {
                    Front::Raw => lift(catch_quiet(|| vm.file_seek_from_end(h, o))),
                    Front::Raii | Front::Drop => lift(catch_quiet(|| {
                        let fl = h.to_file(vm);
                        let r = fl.seek_from_end(o);
                        let _ = fl.to_raw_file();
                        r
                    })),
                    Front::Eio => lift(catch_quiet(|| {
                        use embedded_io::{Seek, SeekFrom};
                        let mut fl = h.to_file(vm);
                        let r = fl.seek(SeekFrom::End(-(o as i64))).map(|_| ());
                        let _ = fl.to_raw_file();
                        r
                    })),
                };
                match r {
                    Ok(()) => Res::Ok,
                    Err(r) => r,
                }
            }
            Op::Flush { f } => {
                let h = self.files[f as usize].unwrap();
                let r = match front {
                    Front::Raw => lift(catch_quiet(|| vm.flush_file(h))),
                    Front::Raii | Front::Drop => lift(catch_quiet(|| {
                        let fl = h.to_file(vm);
                        let r = fl.flush();
                        let _ = fl.to_raw_file();
                        r
                    })),
                    Front::Eio => lift(catch_quiet(|| {
                        use embedded_io::Write;
                        let mut fl = h.to_file(vm);
                        let r = Write::flush(&mut fl);
                        let _ = fl.to_raw_file();
                        r
                    })),
                };
                match r {
                    Ok(()) => Res::Ok,
                    Err(r) => r,
                }
            }
            Op::Close { f } => {
                let h = self.files[f as usize].unwrap();
                let r = match front {
                    Front::Raw => lift(catch_quiet(|| vm.close_file(h))),
                    Front::Drop => lift(catch_quiet(|| {
                        drop(h.to_file(vm));
                        Ok(())
                    })),
                    _ => lift(catch_quiet(|| h.to_file(vm).close())),
                };
                // the handle is gone whether or not the flush inside close failed
                match r {
                    Ok(()) => {
                        self.files[f as usize] = None;
                        Res::Ok
                    }
                    Err(Res::Err(e)) => {
                        self.files[f as usize] = None;
                        Res::Err(e)
                    }
                    Err(r) => r,
                }
            }
            Op::Delete { d, name } => {
                let h = self.dirs[d as usize].unwrap();
                let nm = NAMES[name as usize];
                let r = match front {
                    Front::Raw => lift(catch_quiet(|| vm.delete_file_in_dir(h, nm))),
                    _ => lift(catch_quiet(|| {
                        let dir = h.to_directory(vm);
                        let r = dir.delete_file_in_dir(nm);
                        let _ = dir.to_raw_directory();
                        r
                    })),
                };
                match r {
                    Ok(()) => Res::Ok,
                    Err(r) => r,
                }
            }
            Op::Mkdir { d, name } => {
                let h = self.dirs[d as usize].unwrap();
                let nm = NAMES[name as usize];
                let r = match front {
                    Front::Raw => lift(catch_quiet(|| vm.make_dir_in_dir(h, nm))),
                    _ => lift(catch_quiet(|| {
                        let dir = h.to_directory(vm);
                        let r = dir.make_dir_in_dir(nm);
                        let _ = dir.to_raw_directory();
                        r
                    })),
                };
                match r {
                    Ok(()) => Res::Ok,
                    Err(r) => r,
                }
            }
            Op::List { d } => {
                let h = self.dirs[d as usize].unwrap();
                let mut out = Vec::new();
                match lift(catch_quiet(|| vm.iterate_dir(h, |de| out.push(list_ent(de, None))))) {
                    Ok(()) => Res::Listing(out),
                    Err(r) => r,
                }
            }
            Op::Find { d, name } => {
                let h = self.dirs[d as usize].unwrap();
                let nm = NAMES[name as usize];
                match lift(catch_quiet(|| vm.find_directory_entry(h, nm))) {
                    Ok(de) => Res::Found(list_ent(&de, None)),
                    Err(r) => r,
                }
            }
        }
    }

    /// length/offset/eof of every open file must equal the model's
    fn check_handles(&self, out: &mut Vec<Finding>) {
        for f in 0..NF {
            let (Some(h), Some(mf)) = (self.files[f], self.m.files[f].as_ref()) else {
                continue;
            };
            let Some(file) = self.m.file(mf) else { continue };
            let len = file.data.len() as u32;
            let vm = &self.vm;
            let got = catch_quiet(|| (vm.file_length(h), vm.file_offset(h), vm.file_eof(h)));
            match got {
                Caught::Ok((Ok(l), Ok(o), Ok(e))) => {
                    if l != len {
                        out.push(Finding {
                            clause: "handle/length",
                            detail: format!("f{}: file_length {} but model {}", f, l, len),
                        });
                    }
                    if o != mf.off {
                        out.push(Finding {
                            clause: "handle/offset",
                            detail: format!("f{}: file_offset {} but model {}", f, o, mf.off),
                        });
                    }
                    if e != (mf.off == len) {
                        out.push(Finding {
                            clause: "handle/eof",
                            detail: format!("f{}: file_eof {} but model offset {} length {}", f, e, mf.off, len),
                        });
                    }
                }
                Caught::Ok(x) => out.push(Finding {
                    clause: "handle/query-failed",
                    detail: format!("f{}: {:?}", f, (x.0.map_err(|e| map_err(&e)), x.1.map_err(|e| map_err(&e)), x.2.map_err(|e| map_err(&e)))),
                }),
                Caught::Panic(m) => out.push(Finding {
                    clause: "handle/query-panicked",
                    detail: format!("f{}: {}", f, m),
                }),
            }
        }
    }

    // ---- model side -------------------------------------------------------

    fn expect_err(&mut self, res: &Res, allowed: &[E], clause: &'static str, what: String, out: &mut Vec<Finding>) {
        match res {
            Res::Err(e) if allowed.is_empty() || allowed.contains(e) => {}
            r => {
                out.push(Finding {
                    clause,
                    detail: format!("{}: expected Err{:?}, got {}", what, allowed, r.class()),
                });
                self.m.diverged = true;
            }
        }
    }

    fn unexpected(&mut self, res: &Res, clause: &'static str, what: String, out: &mut Vec<Finding>) {
        out.push(Finding {
            clause,
            detail: format!("{}: expected Ok, got {}", what, res.class()),
        });
        self.m.diverged = true;
    }

    fn model_step(&mut self, op: Op, res: &Res, out: &mut Vec<Finding>) {
        if let Res::Panic(m) = res {
            out.push(Finding {
                clause: "panic",
                detail: format!("{} panicked: {}", op.show(), m),
            });
            self.m.diverged = true;
            return;
        }
        let what = op.show();
        let tick = Ts::Tick(self.tick);
        match op {
            Op::OpenVol { v } => {
                let mut refusals = vec![];
                if self.m.n_open_vols() >= NV {
                    refusals.push(E::TooManyOpenVolumes);
                }
                if self.m.vol_open[v as usize] {
                    refusals.push(E::VolumeAlreadyOpen);
                }
                if self.m.vols[v as usize].is_none() && refusals.is_empty() {
                    // no FAT volume there: any error
                    return self.expect_err(res, &[], "open_volume/result", what, out);
                }
                if !refusals.is_empty() {
                    return self.expect_err(res, &refusals, "open_volume/result", what, out);
                }
                if res.is_ok() {
                    self.m.vol_open[v as usize] = true;
                } else {
                    self.unexpected(res, "open_volume/result", what, out);
                }
            }
            Op::CloseVol { v } => {
                let busy = self.m.dirs.iter().flatten().any(|d| d.vol == v) || self.m.files.iter().flatten().any(|f| f.vol == v);
                if busy {
                    return self.expect_err(res, &[E::VolumeStillInUse], "close_volume/result", what, out);
                }
                if res.is_ok() {
                    self.m.vol_open[v as usize] = false;
                } else {
                    self.unexpected(res, "close_volume/result", what, out);
                }
            }
            Op::OpenRoot { v, d } => {
                if self.m.n_open_dirs() >= ND {
                    return self.expect_err(res, &[E::TooManyOpenDirs], "open_root/result", what, out);
                }
                if res.is_ok() {
                    self.m.dirs[d as usize] = Some(MD { vol: v, path: vec![] });
                } else {
                    self.unexpected(res, "open_root/result", what, out);
                }
            }
            Op::OpenDir { p, name, d } => {
                let parent = self.m.dirs[p as usize].clone().unwrap();
                let mut refusals = vec![];
                if self.m.n_open_dirs() >= ND {
                    refusals.push(E::TooManyOpenDirs);
                }
                let key = norm83(NAMES[name as usize]);
                let mut target: Option<Vec<[u8; 11]>> = None;
                match key {
                    None => refusals.push(E::FilenameError),
                    Some(k) => {
                        if &k == b".          " {
                            target = Some(parent.path.clone());
                        } else if &k == b"..         " {
                            if parent.path.is_empty() {
                                refusals.push(E::NotFound);
                            } else {
                                let mut pp = parent.path.clone();
                                pp.pop();
                                target = Some(pp);
                            }
                        } else {
                            match self.m.dir(parent.vol, &parent.path).and_then(|dd| dd.ch.get(&k)) {
                                None => refusals.push(E::NotFound),
                                Some(MNode::File(_)) => refusals.push(E::OpenedFileAsDir),
                                Some(MNode::Dir(_)) => {
                                    let mut pp = parent.path.clone();
                                    pp.push(k);
                                    target = Some(pp);
                                }
                            }
                        }
                    }
                }
                if !refusals.is_empty() {
                    return self.expect_err(res, &refusals, "open_dir/result", what, out);
                }
                if res.is_ok() {
                    self.m.dirs[d as usize] = Some(MD {
                        vol: parent.vol,
                        path: target.unwrap(),
                    });
                } else {
                    self.unexpected(res, "open_dir/result", what, out);
                }
            }
            Op::CloseDir { d } => {
                if res.is_ok() {
                    self.m.dirs[d as usize] = None;
                } else {
                    self.unexpected(res, "close_dir/result", what, out);
                }
            }
            Op::Open { d, name, mode, f } => {
                let dir = self.m.dirs[d as usize].clone().unwrap();
                let mut refusals = vec![];
                if self.m.n_open_files() >= NF {
                    refusals.push(E::TooManyOpenFiles);
                }
                let key = norm83(NAMES[name as usize]);
                let creating = matches!(mode, M_CREATE | M_CREATE_TRUNC | M_CREATE_APPEND);
                let mut exists_file = false;
                if let Some(k) = key {
                    let is_open = self.m.files.iter().flatten().any(|x| x.vol == dir.vol && x.dir == dir.path && x.name == k);
                    if &k == b".          " || &k == b"..         " {
                        // dot names: in a sub-directory they are directories; in the root they do not exist
                        if dir.path.is_empty() {
                            if !creating {
                                refusals.push(E::NotFound);
                            } else {
                                // creating a file called "." / ".." is outside every property: accept anything
                                self.m.diverged = true;
                                return;
                            }
                        } else if mode == M_CREATE {
                            refusals.push(E::FileAlreadyExists);
                        } else {
                            refusals.push(E::OpenedDirAsFile);
                        }
                    } else {
                        match self.m.dir(dir.vol, &dir.path).and_then(|dd| dd.ch.get(&k)) {
                            None => {
                                if !creating {
                                    refusals.push(E::NotFound);
                                }
                            }
                            Some(MNode::Dir(_)) => {
                                if mode == M_CREATE {
                                    refusals.push(E::FileAlreadyExists);
                                } else {
                                    refusals.push(E::OpenedDirAsFile);
                                }
                            }
                            Some(MNode::File(file)) => {
                                exists_file = true;
                                if is_open {
                                    refusals.push(E::FileAlreadyOpen);
                                }
                                if mode == M_CREATE {
                                    refusals.push(E::FileAlreadyExists);
                                }
                                if file.attr & 0x01 != 0 && mode != M_RO {
                                    refusals.push(E::ReadOnly);
                                }
                            }
                        }
                    }
                } else {
                    refusals.push(E::FilenameError);
                }
                if !refusals.is_empty() {
                    return self.expect_err(res, &refusals, "open_file/result", what, out);
                }
                let k = key.unwrap();
                match res {
                    Res::Ok => {
                        let dd = self.m.dir_mut(dir.vol, &dir.path).unwrap();
                        // opening an existing file read-only (and closing it again) is not "touching" it: its entry
                        // and its directory must stay byte-for-byte what they were
                        let only_reading = exists_file && mode == M_RO;
                        if !only_reading {
                            dd.touched = true;
                        }
                        let mut off = 0;
                        if !exists_file {
                            dd.ch.insert(
                                k,
                                MNode::File(MFile {
                                    data: vec![],
                                    attr: 0,
                                    ctime: tick,
                                    mtime: tick,
                                    durable: Some(vec![]),
                                    opaque: false,
                                    touched: true,
                                    open: true,
                                }),
                            );
                        } else if let Some(MNode::File(file)) = dd.ch.get_mut(&k) {
                            if !only_reading {
                                file.touched = true;
                            }
                            file.open = true;
                            match mode {
                                M_TRUNC | M_CREATE_TRUNC => {
                                    file.data.clear();
                                    file.mtime = tick;
                                    file.durable = Some(vec![]);
                                }
                                M_APPEND | M_CREATE_APPEND => off = file.data.len() as u32,
                                _ => {}
                            }
                        }
                        self.m.files[f as usize] = Some(MF {
                            vol: dir.vol,
                            dir: dir.path.clone(),
                            name: k,
                            mode: if !exists_file { M_CREATE } else { mode },
                            off,
                            wseq: 0,
                            dirty: false,
                        });
                    }
                    Res::Err(E::NotEnoughSpace) | Res::Err(E::DiskFull) if !exists_file => {
                        // implementation-only failure: directory cannot take another entry.
                        out.push(Finding {
                            clause: "impl-only/create-out-of-space",
                            detail: what,
                        });
                    }
                    Res::Err(E::NotEnoughSpace) | Res::Err(E::DiskFull) => self.unexpected(res, "open_file/result", what, out),
                    _ => self.unexpected(res, "open_file/result", what, out),
                }
            }
            Op::Write { f, n } => {
                let mf = self.m.files[f as usize].clone().unwrap();
                if mf.mode == M_RO {
                    return self.expect_err(res, &[E::ReadOnly], "write/read-only-handle", what, out);
                }
                let h = self.files[f as usize];
                // how much does the implementation say it took?
                let (impl_off, impl_len) = match h {
                    Some(h) => (self.vm.file_offset(h).ok(), self.vm.file_length(h).ok()),
                    None => (None, None),
                };
                let taken: u32 = match res {
                    Res::Ok => n,
                    Res::Err(E::DiskFull) | Res::Err(E::NotEnoughSpace) => {
                        out.push(Finding {
                            clause: "impl-only/write-out-of-space",
                            detail: what.clone(),
                        });
                        match impl_off {
                            Some(o) if o >= mf.off && o - mf.off < n => o - mf.off,
                            other => {
                                out.push(Finding {
                                    clause: "write/partial-offset",
                                    detail: format!("{}: after out-of-space error offset is {:?}, was {}", what, other, mf.off),
                                });
                                self.m.diverged = true;
                                return;
                            }
                        }
                    }
                    _ => return self.unexpected(res, "write/result", what, out),
                };
                let _ = impl_len;
                let tickv = tick;
                let file = self.m.file_mut(&mf).unwrap();
                let end = mf.off as usize + taken as usize;
                if file.data.len() < end {
                    file.data.resize(end, 0);
                }
                for i in 0..taken {
                    file.data[(mf.off + i) as usize] = payload(f, mf.wseq, mf.off + i);
                }
                if n > 0 {
                    file.mtime = tickv;
                    file.durable = None;
                    file.attr |= 0x20;
                }
                let h = self.m.files[f as usize].as_mut().unwrap();
                h.off += taken;
                h.wseq += 1;
                h.dirty = true;
            }
            Op::Fill { f } => {
                let mf = self.m.files[f as usize].clone().unwrap();
                match res {
                    Res::Filled(total, e) => {
                        if mf.mode == M_RO {
                            if *total != 0 || *e != E::ReadOnly {
                                out.push(Finding {
                                    clause: "write/read-only-handle",
                                    detail: format!("{}: {:?}", what, res.class()),
                                });
                                self.m.diverged = true;
                            }
                            return;
                        }
                        if !matches!(e, E::DiskFull | E::NotEnoughSpace) {
                            out.push(Finding {
                                clause: "fill/error-kind",
                                detail: format!("{}: fill ended with {:?}, not an out-of-space error", what, e),
                            });
                            self.m.diverged = true;
                            return;
                        }
                        // partial last chunk?
                        let impl_off = self.files[f as usize].and_then(|h| self.vm.file_offset(h).ok());
                        let extra = match impl_off {
                            Some(o) if o as u64 >= mf.off as u64 + *total && (o as u64 - mf.off as u64 - *total) < 512 => {
                                (o as u64 - mf.off as u64 - *total) as u32
                            }
                            other => {
                                out.push(Finding {
                                    clause: "write/partial-offset",
                                    detail: format!("{}: offset after fill {:?}, start {} accepted {}", what, other, mf.off, total),
                                });
                                self.m.diverged = true;
                                return;
                            }
                        };
                        let taken = *total as u32 + extra;
                        let tickv = tick;
                        let file = self.m.file_mut(&mf).unwrap();
                        let end = mf.off as usize + taken as usize;
                        if file.data.len() < end {
                            file.data.resize(end, 0);
                        }
                        for i in 0..taken {
                            file.data[(mf.off + i) as usize] = payload(f, mf.wseq, mf.off + i);
                        }
                        file.mtime = tickv;
                        file.durable = None;
                        file.attr |= 0x20;
                        let h = self.m.files[f as usize].as_mut().unwrap();
                        h.off += taken;
                        h.wseq += 1;
                        h.dirty = true;
                    }
                    _ => self.unexpected(res, "fill/result", what, out),
                }
            }
            Op::Read { f, n } => {
                let mf = self.m.files[f as usize].clone().unwrap();
                let file = self.m.file(&mf).unwrap();
                let len = file.data.len() as u32;
                let want: Vec<u8> = file.data[mf.off as usize..(mf.off as u64 + n as u64).min(len as u64) as usize].to_vec();
                match res {
                    Res::Data(got) => {
                        if got.as_slice() != want.as_slice() {
                            let first = got.iter().zip(want.iter()).position(|(a, b)| a != b);
                            out.push(Finding {
                                clause: if got.len() != want.len() { "read/count" } else { "read/data" },
                                detail: format!(
                                    "{}: at offset {} of {}-byte file: got {} bytes, model {} bytes, first difference at +{:?}",
                                    what,
                                    mf.off,
                                    len,
                                    got.len(),
                                    want.len(),
                                    first
                                ),
                            });
                            self.m.diverged = true;
                        }
                        let k = want.len() as u32;
                        self.m.files[f as usize].as_mut().unwrap().off += k;
                    }
                    _ => self.unexpected(res, "read/result", what, out),
                }
            }
            Op::SeekStart { f, o } => {
                let mf = self.m.files[f as usize].clone().unwrap();
                let len = self.m.file(&mf).unwrap().data.len() as u32;
                if o > len {
                    return self.expect_err(res, &[E::InvalidOffset], "seek/invalid", what, out);
                }
                if res.is_ok() {
                    self.m.files[f as usize].as_mut().unwrap().off = o;
                } else {
                    self.unexpected(res, "seek/result", what, out);
                }
            }
            Op::SeekEnd { f, o } => {
                let mf = self.m.files[f as usize].clone().unwrap();
                let len = self.m.file(&mf).unwrap().data.len() as u32;
                if o > len {
                    return self.expect_err(res, &[E::InvalidOffset], "seek/invalid", what, out);
                }
                if res.is_ok() {
                    self.m.files[f as usize].as_mut().unwrap().off = len - o;
                } else {
                    self.unexpected(res, "seek/result", what, out);
                }
            }
            Op::SeekCur { f, o } => {
                let mf = self.m.files[f as usize].clone().unwrap();
                let len = self.m.file(&mf).unwrap().data.len() as i64;
                let t = mf.off as i64 + o as i64;
                if t < 0 || t > len {
                    return self.expect_err(res, &[E::InvalidOffset], "seek/invalid", what, out);
                }
                if res.is_ok() {
                    self.m.files[f as usize].as_mut().unwrap().off = t as u32;
                } else {
                    self.unexpected(res, "seek/result", what, out);
                }
            }
            Op::Flush { f } | Op::Close { f } => {
                let mf = self.m.files[f as usize].clone().unwrap();
                let closing = matches!(op, Op::Close { .. });
                if res.is_ok() {
                    let file = self.m.file_mut(&mf).unwrap();
                    if mf.dirty || file.durable.is_some() {
                        file.durable = Some(file.data.clone());
                    }
                    if closing {
                        file.open = false;
                        self.m.files[f as usize] = None;
                    }
                } else {
                    if closing {
                        if let Some(file) = self.m.file_mut(&mf) {
                            file.open = false;
                        }
                        self.m.files[f as usize] = None;
                    }
                    self.unexpected(res, "flush/result", what, out);
                }
            }
            Op::Delete { d, name } => {
                let dir = self.m.dirs[d as usize].clone().unwrap();
                let key = norm83(NAMES[name as usize]);
                let mut refusals = vec![];
                let mut ro = false;
                match key {
                    None => refusals.push(E::FilenameError),
                    Some(k) => {
                        let is_open = self.m.files.iter().flatten().any(|x| x.vol == dir.vol && x.dir == dir.path && x.name == k);
                        if &k == b".          " || &k == b"..         " {
                            if dir.path.is_empty() {
                                refusals.push(E::NotFound);
                            } else {
                                refusals.push(E::DeleteDirAsFile);
                            }
                        } else {
                            match self.m.dir(dir.vol, &dir.path).and_then(|dd| dd.ch.get(&k)) {
                                None => refusals.push(E::NotFound),
                                Some(MNode::Dir(_)) => refusals.push(E::DeleteDirAsFile),
                                Some(MNode::File(file)) => {
                                    if is_open {
                                        refusals.push(E::FileAlreadyOpen);
                                    }
                                    ro = file.attr & 1 != 0;
                                }
                            }
                        }
                    }
                }
                if !refusals.is_empty() {
                    return self.expect_err(res, &refusals, "delete/result", what, out);
                }
                let k = key.unwrap();
                if res.is_ok() {
                    let dd = self.m.dir_mut(dir.vol, &dir.path).unwrap();
                    dd.touched = true;
                    dd.ch.remove(&k);
                } else if ro && matches!(res, Res::Err(_)) {
                    // deleting a read-only file: the properties are silent; accept a refusal
                    if let Some(MNode::File(file)) = self.m.dir_mut(dir.vol, &dir.path).unwrap().ch.get_mut(&k) {
                        file.touched = true;
                    }
                } else {
                    self.unexpected(res, "delete/result", what, out);
                }
            }
            Op::Mkdir { d, name } => {
                let dir = self.m.dirs[d as usize].clone().unwrap();
                let key = norm83(NAMES[name as usize]);
                let mut refusals = vec![];
                let table_full = self.m.n_open_dirs() >= ND;
                match key {
                    None => refusals.push(E::FilenameError),
                    Some(k) => {
                        if &k == b".          " || &k == b"..         " {
                            if dir.path.is_empty() {
                                // creating "." in the root: outside every property
                                self.m.diverged = true;
                                return;
                            }
                            refusals.push(E::DirAlreadyExists);
                        } else {
                            match self.m.dir(dir.vol, &dir.path).and_then(|dd| dd.ch.get(&k)) {
                                None => {}
                                Some(MNode::Dir(_)) => refusals.push(E::DirAlreadyExists),
                                Some(MNode::File(_)) => refusals.push(E::FileAlreadyExists),
                            }
                        }
                    }
                }
                if table_full {
                    // the crate refuses mkdir when the directory table is full (explicit, commented check);
                    // the properties neither require nor forbid that.
                    refusals.push(E::TooManyOpenDirs);
                    if matches!(res, Res::Err(E::TooManyOpenDirs)) {
                        return;
                    }
                    refusals.pop();
                }
                if !refusals.is_empty() {
                    return self.expect_err(res, &refusals, "mkdir/result", what, out);
                }
                let k = key.unwrap();
                match res {
                    Res::Ok => {
                        let dd = self.m.dir_mut(dir.vol, &dir.path).unwrap();
                        dd.touched = true;
                        dd.ch.insert(
                            k,
                            MNode::Dir(MDir {
                                ch: BTreeMap::new(),
                                ctime: tick,
                                mtime: tick,
                                touched: true,
                            }),
                        );
                    }
                    Res::Err(E::NotEnoughSpace) | Res::Err(E::DiskFull) => {
                        out.push(Finding {
                            clause: "impl-only/mkdir-out-of-space",
                            detail: what,
                        });
                    }
                    _ => self.unexpected(res, "mkdir/result", what, out),
                }
            }
            Op::List { d } => {
                let dir = self.m.dirs[d as usize].clone().unwrap();
                match res {
                    Res::Listing(l) => {
                        // names (excluding labels and dot entries) must equal the model's children
                        let mut got: Vec<[u8; 11]> = l
                            .iter()
                            .filter(|e| e.attr & 0x08 == 0 && &e.name != b".          " && &e.name != b"..         ")
                            .map(|e| e.name)
                            .collect();
                        got.sort();
                        let want: Vec<[u8; 11]> = self.m.dir(dir.vol, &dir.path).map(|dd| dd.ch.keys().cloned().collect()).unwrap_or_default();
                        if got != want {
                            out.push(Finding {
                                clause: "list/names",
                                detail: format!(
                                    "{}: listed {:?}, model {:?}",
                                    what,
                                    got.iter().map(key_str).collect::<Vec<_>>(),
                                    want.iter().map(key_str).collect::<Vec<_>>()
                                ),
                            });
                            self.m.diverged = true;
                        }
                    }
                    _ => self.unexpected(res, "list/result", what, out),
                }
            }
            Op::Find { d, name } => {
                let dir = self.m.dirs[d as usize].clone().unwrap();
                let key = norm83(NAMES[name as usize]);
                match key {
                    None => self.expect_err(res, &[E::FilenameError], "find/result", what, out),
                    Some(k) => {
                        let dot = &k == b".          " || &k == b"..         ";
                        let present = if dot {
                            !dir.path.is_empty()
                        } else {
                            self.m.dir(dir.vol, &dir.path).map(|dd| dd.ch.contains_key(&k)).unwrap_or(false)
                        };
                        if present {
                            match res {
                                Res::Found(e) if e.name == k => {}
                                _ => self.unexpected(res, "find/result", what, out),
                            }
                        } else {
                            self.expect_err(res, &[E::NotFound], "find/result", what, out)
                        }
                    }
                }
            }
        }
    }
}
