#!/bin/sh
# usage: tools/revert_test.sh <repo-commit> <property> [tier]
# Temporarily reverts one fix commit in /repo's working tree, runs the check, restores the tree.
C="$1"; P="$2"; T="${3:-quick}"
cd /repo || exit 2
if [ -n "$(git status --porcelain)" ]; then echo "repo not clean"; exit 2; fi
if ! git show "$C" | git apply -R 2>/dev/null; then
  echo "cannot reverse-apply $C cleanly (later commits touch the same lines)"; git reset -q --hard HEAD; exit 2
fi
echo "== reverted $C ($(git log -1 --format=%s $C | cut -c1-70)) -> check $P $T"
cd /verif && ./check "$P" "$T" | cut -c1-260 | grep -E "VIOLATION|signature|KNOWN|violations=" | head -12
git -C /repo checkout -- .
