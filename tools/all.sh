#!/bin/sh
# usage: tools/all.sh <quick|thorough> [ids...] — runs the checks in sequence and prints one line each
T="${1:-quick}"; shift
IDS="$*"; [ -z "$IDS" ] && IDS="C01 C02 C03 C04 C05 C06 C07 C08 C09 C10 C11 C12 C13 C14 C15 C16 C17 C18 C19"
cd "$(dirname "$0")/.." || exit 2
for p in $IDS; do
  S=$(date +%s)
  OUT=$(./check $p $T 2>&1); RC=$?
  E=$(( $(date +%s) - S ))
  echo "== $p $T rc=$RC ${E}s"
  echo "$OUT" | grep -E "VIOLATION|signature|detail|KNOWN|MACHINERY|panicked" | cut -c1-300 | head -20
done
