#!/usr/bin/env python3
"""Write one prompt file per property for a round of seeded changes made by independent sub-agents.

usage: tools/seed_prompts.py <worktree-root>     (e.g. /tmp/wt4)

For every property Cxx it creates a scratch git worktree <root>/Cxx of /repo (HEAD) and the file
<root>/Cxx.prompt.txt. The prompt contains only the text of the property (title, statement, quantifier)
and the one-sentence summaries of the changes already kept under /verif/seeded/Cxx-*/ ("already taken");
nothing else from /verif is shown to the agent.
"""
import glob
import json
import os
import subprocess
import sys

root = sys.argv[1]
os.makedirs(root, exist_ok=True)
here = os.path.dirname(os.path.dirname(os.path.abspath(__file__)))
props = [json.loads(l) for l in open(os.path.join(here, "properties.jsonl"))]

TEMPLATE = """You are helping to evaluate a verification framework for the Rust crate `embedded-sdmmc` (a no_std FAT16/FAT32 filesystem plus an SD-card-over-SPI block driver). Your job is to act as a realistic source of regressions.

You have your own scratch git worktree of the repository at: {wt}
Work ONLY inside that directory. Do not read or write /repo or /verif at all (they are off limits), and do not look for any verification tooling elsewhere on the machine. The sandbox has no network; use `cargo ... --offline`.

Here is a semantic property the crate is supposed to satisfy:

----
Property {id} — {title}

Statement: {statement}

Quantified over: {quant}
{taken}
----

TASK: make ONE small, realistic change to the crate's source (under {wt}/src) that BREAKS this property, such that
  1. the crate still compiles and the existing test suite still passes: run `cd {wt} && cargo test --offline 2>&1 | grep -E "test result|FAILED|error"` and make sure every line says ok (43 tests in total, plus doc-tests);
  2. the breakage needs something SPECIFIC to manifest — a particular interleaving of calls, a crash/fault at a particular point, a multi-step sequence of operations, an unusual input or geometry, or two cooperating code sites that each look fine alone. Do NOT make a change that ordinary use would expose at once (not "always return an error", not "corrupt every write");
  3. it looks like a plausible programming mistake or a plausible "optimisation"/refactoring gone wrong (off-by-one, wrong boundary, stale cached value, missing update on one path, wrong order of two steps, dropped check, condition inverted on a rare path, ...).
Prefer a change in a DIFFERENT place / of a different nature than the most obvious one; be creative and read the relevant code carefully first (start with src/volume_mgr.rs, src/fat/volume.rs, src/filesystem/*.rs, src/blockdevice.rs, src/sdcard/mod.rs, src/sdcard/proto.rs as relevant to the property).

DELIVERABLES, all inside {wt}/_seed/ (create the directory):
  - `patch.diff`: output of `git -C {wt} diff -- src` (the change only; do not commit).
  - a DEMONSTRATION that fails with your change and passes without it: a self-contained Rust integration test file `demo.rs` (also copy it to {wt}/tests/seed_demo.rs so that `cargo test --offline --test seed_demo` runs it). It may use the helpers in {wt}/tests/utils/mod.rs (`mod utils;`), an in-memory block device of your own, or for the SD driver a small simulated SPI device of your own implementing `embedded_hal::spi::SpiDevice`. Verify BOTH directions yourself: with the change the demo fails; without it the demo passes (do NOT use `git stash` - it is shared with other worktrees; use `git diff -- src > {root}/{id}.mine.patch; git checkout -- src; ...; git apply {root}/{id}.mine.patch`); then re-apply the change.
  - `meta.json`: {{"property": "{id}", "summary": "<one sentence: what was changed>", "needs": "<what specific situation is needed for the breakage to manifest>", "commands_run": ["..."], "existing_tests_pass": true}}

Leave the worktree with your change applied (uncommitted) and tests/seed_demo.rs present. In your final answer, state briefly: what you changed (file/function), why it breaks the property, what is needed to trigger it, and confirm the three verifications (suite passes with change; demo fails with change; demo passes without change).
"""

for p in props:
    pid = p["id"]
    wt = os.path.join(root, pid)
    if not os.path.isdir(wt):
        subprocess.run(["git", "-C", "/repo", "worktree", "add", "--detach", "-q", wt, "HEAD"], check=True)
    taken = []
    for d in sorted(glob.glob(os.path.join(here, "seeded", pid + "-*"))):
        try:
            m = json.load(open(os.path.join(d, "meta.json")))
            taken.append(m.get("summary", "").strip())
        except Exception:
            pass
    t = ""
    if taken:
        t = ("\nNOTE: other engineers have already produced the following changes for this property; do NOT repeat any of them or a close variant, "
             "and pick a different code site AND a different kind of triggering situation (think about: unusual geometries such as many blocks per cluster, "
             "large partition offsets, FAT12/16/32 boundaries; long histories; several handles or volumes open at once; rarely used API entry points and wrapper "
             "types; boundary values of sizes, offsets and counters; error paths; values that only differ in high bits):\n"
             + "\n".join("  - " + x for x in taken if x) + "\n")
    txt = TEMPLATE.format(wt=wt, id=pid, title=p["title"], statement=p["statement"], quant=p["quantifier"]["text"], taken=t, root=root)
    open(os.path.join(root, pid + ".prompt.txt"), "w").write(txt)
    print(pid, "taken:", len(taken))
