#!/usr/bin/env python3
"""Regenerates /verif/MANIFEST.json from the table below. Run after changing which properties are claimed."""
import json, os
HERE = os.path.dirname(os.path.dirname(os.path.abspath(__file__)))

# id -> (level, technique, level text, level note, design ref)   (None = not yet claimed)
CLAIMED = {
}
PENDING_REASON = "check not built yet in this round (planned: bounded-exhaustive exploration of the real code, see DESIGN.md section 5)"

props = [json.loads(l) for l in open(os.path.join(HERE, "properties.jsonl"))]
checks, na = [], []
for p in props:
    pid = p["id"]
    c = CLAIMED.get(pid)
    if c is None:
        na.append({"property_id": pid, "reason": PENDING_REASON})
        continue
    level, technique, text, note, ref = c
    checks.append({
        "property_id": pid,
        "quick_cmd": f"./check {pid} quick",
        "thorough_cmd": f"./check {pid} thorough",
        "evidence_file": f"/verif/evidence/{pid}.json",
        "replay_cmd_template": "./check --replay {path}",
        "engine": "sdmmc-mc",
        "level_claimed": {"category": level, "text": text, "design_ref": ref},
        "level_note": note,
        "technique": technique,
    })
m = {
    "version": 1,
    "setup_cmd": "cd /verif/harness && CARGO_NET_OFFLINE=true cargo build --release --offline",
    "hooks": {
        "guard": "cargo feature verif-hooks (off by default)",
        "enable": "the harness depends on /repo with default-features = false, features = [\"verif-hooks\"]",
        "baseline_off_cmd": "cd /repo && cargo test --workspace --no-fail-fast --offline",
        "source_commits": ["0804a4e"],
        "add_only": True,
    },
    "engines": [{
        "name": "sdmmc-mc",
        "path": "/verif/harness",
        "serves_properties": [c["property_id"] for c in checks],
        "kind_free_text": "own bounded-exhaustive explorer driving the real crate: history BFS with fingerprint de-duplication (E1), deviation-bounded choice-point exploration (E2), crash-prefix enumeration (E3), exhaustive input enumeration (E4)",
    }],
    "checks": checks,
    "not_applicable": na,
    "notes": "Exit codes: 0 held, 1 violation (VIOLATION line), 2 machinery failure. known_findings.json lists recorded genuine defects.",
}
json.dump(m, open(os.path.join(HERE, "MANIFEST.json"), "w"), indent=1)
print(f"claimed {len(checks)} / not_applicable {len(na)}")
