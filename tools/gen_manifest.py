#!/usr/bin/env python3
"""Regenerates /verif/MANIFEST.json from the table below. Run after changing which properties are claimed."""
import json, os
HERE = os.path.dirname(os.path.dirname(os.path.abspath(__file__)))

# id -> (level, technique, level text, level note, design ref)   (None = not yet claimed)
MC_NOTE = "Trusted base: the harness's own SimDisk/mkfs/refat/fsmodel (validated by the start-up self-test against the repository's macOS-made disk image and against the crate), block writes atomic and ordered, bounds as stated in the evidence file."
CLAIMED = {
 "C01": ("model_checking", "explicit-state BFS over API histories of the real code (fingerprint de-duplication), byte-array reference model",
         "Every history up to the stated depth over a collision-forcing alphabet (3 open files, 2 volumes on one device, 3 front ends, geometry grid) is executed on the real VolumeManager; every read, length, offset and EOF is compared with a byte-array model and every new state is read back completely.",
         MC_NOTE, "DESIGN.md section 5 C01"),
 "C02": ("model_checking", "explicit-state BFS over mutation histories of the real code; at every state the medium snapshot is read by a fresh mount of the crate and by an independent FAT reader",
         "Every create/open/write/flush/close/delete/mkdir history up to the depth bound is executed on the real code with a moving clock; after every call the raw medium is remounted by a fresh VolumeManager and walked by refat, and every flushed-and-unmodified file must show the flushed length, bytes, attribute and times, every untouched object must be byte- and entry-identical.",
         MC_NOTE, "DESIGN.md section 5 C02"),
 "C03": ("model_checking", "explicit-state BFS over mutation histories incl. failing calls; independent fsck of the raw image after every call and after flushing pending state",
         "After every call (Ok or Err) of every history up to the bound, on volumes incl. full FAT16 roots and 0/1/2/3 free clusters, refat's fsck (chains, sharing, sizes, unique names, dot entries, end marker) must report no new problem; the same on a scratch replay with all open files flushed.",
         MC_NOTE, "DESIGN.md section 5 C03"),
 "C04": ("model_checking", "explicit-state BFS over mutation histories; write-log region check and byte-level diff explanation per call",
         "For every call of every history up to the bound the logged device writes must lie inside the volume's partition and the right region, and every changed FAT entry / data byte must be explained by the call's own object (foreign chains, slack entries, reserved entries, FAT32 high nibble, neighbouring slots, bytes outside the requested range are violations).",
         MC_NOTE + " A victim partition lies behind the volume; the device accepts out-of-volume writes so they are judged, not masked.", "DESIGN.md section 5 C04"),
 "C05": ("model_checking", "explicit-state BFS over fill/delete/refill cycles on nearly-full volumes; FAT scan vs reachable set, capacity arithmetic",
         "All histories of create/fill/write/close/delete/mkdir up to the bound on volumes with 0..3 free clusters (slack and exact FATs): accepted bytes must equal free clusters x cluster size, the error must be an out-of-space error, everything accepted reads back, and at quiescent points clusters in use = union of live chains (differentially per operation).",
         MC_NOTE, "DESIGN.md section 5 C05"),
 "C06": ("model_checking", "exhaustive enumeration of directory contents (slot sequences over a slot alphabet at 8 placements) plus explicit-state BFS over create/delete/mkdir histories; listing, lookup and open_dir compared with an independent reader",
         "Every slot sequence up to the bound over {file, dir, deleted, label, LFN run, LFN slot spelling an 8.3 name, end marker} at the start of a directory, across a cluster boundary of a fragmented directory, in FAT16 roots of 16/32/512 entries and FAT32 roots at cluster 2/5 is listed by the real iterate_dir and every name of a universe is looked up / opened; plus the same probes at every state of the mutation histories.",
         MC_NOTE, "DESIGN.md section 5 C06"),
 "C07": ("model_checking", "explicit-state BFS over create/delete/mkdir/open/close histories with the full mode x target x name matrix applied at every state (one extra replay per cell)",
         "At every reachable state within the depth bound every cell of {6 modes} x {missing, file, read-only file, directory, open file, second directory handle} x {valid and invalid names} plus write-on-read-only, delete and open_dir is applied to the real code; the outcome class must be the documented one and a refused call must leave the medium bit-identical.",
         MC_NOTE, "DESIGN.md section 5 C07"),
 "C08": ("model_checking", "explicit-state BFS over open/close histories for each limit configuration (one monomorphisation each), from empty and from nearly-full tables, with stale-handle and re-entrancy probes at every state",
         "For 14 (quick) / 77 (thorough) limit configurations every open/close history up to the depth bound is run on the real VolumeManager against a small handle/limit model (distinct handles, matching too-many errors exactly at the limit, slot freed by close, close_volume refusal, no double open, has_open_handles truthful, handle counter wrap); at every state of the probe configurations every closed handle is fed to every method of its kind and all 23 Result-returning methods (thorough: plus the wrapper types and embedded-io impls) are called from inside iterate_dir / iterate_dir_lfn callbacks and must return LockError without effect.",
         MC_NOTE + " The check's engine is the separate sdmmc-mc-limits(-quick) binary.", "DESIGN.md section 5 C08"),
 "C09": ("fault_enumeration", "crash-prefix enumeration: every prefix of the block-write log of every transition of an explicit-state BFS, judged by a fresh mount and an independent reader",
         "For every transition explored (all mutation histories up to the depth bound) and every prefix of its write log, the crash image must still show every file flushed before the transition (and not modified by it) with at least the flushed length and exactly the flushed bytes, through refat and through a fresh mount of the crate.",
         MC_NOTE, "DESIGN.md section 5 C09"),
 "C10": ("fault_enumeration", "crash-prefix enumeration over every mutating transition of an explicit-state BFS; independent fsck of every crash image",
         "For every prefix of the write log of every explored transition (create, extend, flush, close, truncate, delete, mkdir, directory growth) on volumes whose free clusters hold stale directory-like contents, the crash image must mount and list, and refat must find no reference to a free/bad/out-of-range cluster, no shared cluster, no cycle, no exposed stale entries and no sub-directory without its own cluster.",
         MC_NOTE, "DESIGN.md section 5 C10"),
 "C11": ("fault_enumeration", "explicit-state BFS over histories; every transition re-executed with a device failure at every device-call index (and every pair across the last two operations in the thorough tier)",
         "For every transition of the history exploration the real call is re-run once per block-device call with exactly that call failing (failed reads scribble the buffer): it must return Err, not panic or hang; afterwards all handles must work and close, a retried read-only call must give the fault-free answer, re-issuing the call must not create duplicate names, and bystander files must be intact on the medium.",
         MC_NOTE + " The property's random multi-fault sequences are replaced by exhaustive pairs.", "DESIGN.md section 5 C11"),
 "C12": ("model_checking", "deviation-bounded exhaustive exploration of card-timing choice points (E2) over all call sequences up to a depth, real driver against a byte-level card model; every CSD register enumerated",
         "For each card kind x CRC mode x every call sequence up to the depth bound, every execution with at most the stated number of departures from the default card timing (response delay, ACMD41 iterations, data-token delay, busy length menus) is run on the real driver; reads must return the card's memory, writes must change exactly the addressed blocks, capacity must follow the register's own CSD_STRUCTURE for every v1 register and (thorough) every v2 C_SIZE, and the card kind must be identified.",
         "Trusted base: the byte-level card model (simcard.rs, from the SD physical layer spec; validated by golden frames and by mutants of the driver). Timings are menus.", "DESIGN.md section 5 C12"),
 "C13": ("fault_enumeration", "exhaustive enumeration of card misbehaviour positions: the card dies/stays busy/sends garbage at every byte position, SPI error at every transaction, every bad token/status value, every single-bit flip and bit bursts",
         "For each card kind x CRC mode the scenario {init, read 1, read 3, write 1, write 3, num_blocks} is re-run once per fault position/value on the real driver: no Ok read whose bytes did not appear on the wire with a matching CRC, Err for every rejected block / failed status / wrong token / bus error in both CRC modes, every call returns within 5*10^7 byte exchanges, a failed identification leaves the card uninitialised, and after healing (+mark_card_uninit) the card works again.",
         "Trusted base: simcard.rs and the bit-serial reference CRC. Misbehaviour is three stereotypes per byte position.", "DESIGN.md section 5 C13"),
 "C14": ("model_checking", "protocol-monitor automaton (invariant) evaluated on every execution of the C12 timing exploration plus calls after errors and re-initialisation",
         "Every byte the real driver puts on the bus in every explored execution is fed to an independent monitor: six-byte frames with start/transmission/end bits and correct CRC-7, no frame while the card signals busy (CMD0/CMD12 exempt), ACMDs directly behind an accepted CMD55, identification order, data commands only after identification, 0xFE/0xFC tokens with exactly 512 bytes and two CRC bytes (valid when CRC is on), multi-block reads closed by CMD12 and writes by 0xFD.",
         "Trusted base: spimon.rs (written from the SD specification), simcard.rs as the environment.", "DESIGN.md section 5 C14"),
 "C15": ("exploration", "exhaustive input enumeration: full product of valid layout parameters and single+pair boundary mutations, run through the real mount path",
         "Every layout in the stated product is formatted by an independent formatter and must be mounted, listed and read back exactly by the crate; every boundary value of every MBR/BPB/FSInfo field (singly and in pairs) and every constant-byte sector must make open_raw_volume return without panic under overflow checks.",
         "Trusted base: mkfs (independent formatter) and refat (its images are cross-checked by the self-test). Between grid points nothing is claimed.", "DESIGN.md section 5 C15"),
 "C16": ("model_checking", "explicit-state BFS over allocation/truncation/deletion histories on 1- and 2-FAT volumes and five FSInfo variants, with a twin-volume differential",
         "After every returned call the FAT copies must be byte-identical; after each flush/close on FAT32 the stored free count must have moved by exactly the FAT-scan delta (unknown stays unknown), the stored hint must be unknown or in range, and every history on a stale/out-of-range record must return what it returns on the twin volume with a correct record.",
         MC_NOTE, "DESIGN.md section 5 C16"),
 "C17": ("model_checking", "exhaustive enumeration of fragment/code-unit classes for the decoder and explicit-state exploration of all directory slot sequences up to a length bound for the listing state machine",
         "LfnBuffer is fed every fragment combination over code-unit classes at fragment boundaries and every buffer size and compared with String::from_utf16_lossy; every slot sequence up to the bound over an alphabet of fragments/short entries/deleted/label slots is listed by the real iterate_dir_lfn and compared with the specification's LFN matching rule; arbitrary slot bytes must not panic.",
         "Trusted base: refat's LFN matcher and std's UTF-16 decoder. Tolerated: deleted slots inside/after a run and checksum differences on non-first fragments (the property is silent).", "DESIGN.md section 5 C17"),
 "C18": ("exploration", "exhaustive input enumeration of the real codecs against independent reference codecs",
         "All 2^32 FAT date/time pairs, every second 1980..2107, entry field corners x all 256 attribute bytes x both FAT types (hook H1 and end-to-end), and all 8.3 name strings over a class alphabet up to the stated lengths are run through the real functions and compared with codecs written from the FAT specification.",
         "Trusted base: refat::{encode_ts,decode_ts}, mkfs::short_entry, names83::parse83. Between alphabet classes nothing is claimed.", "DESIGN.md section 5 C18"),
 "C19": ("model_checking", "exhaustive enumeration of all transitions of the CRC-16 register state machine against bit-serial polynomial division",
         "All 2^24 messages of length <= 3 cover every (remainder, next byte) transition of the 65536-state CRC-16 register (reachability of all remainders is counted); basis messages, append-CRC identity, length sweeps, all CRC-7 frames with <= 2 argument bits, and every single/double/burst error pattern are checked on the real functions.",
         "Trusted base: the bit-serial reference division. Induction from transitions to all messages assumes crc16 is a byte-wise fold, probed by the basis and length-sweep messages.", "DESIGN.md section 5 C19"),
}
PENDING_REASON = "check not built yet in this round (planned: bounded-exhaustive exploration of the real code, see DESIGN.md section 5)"

props = [json.loads(l) for l in open(os.path.join(HERE, "properties.jsonl"))]
checks, na = [], []
for p in props:
    pid = p["id"]
    c = CLAIMED.get(pid)
    if c is None:
        na.append({"property_id": pid, "reason": PENDING_REASON})
        continue
    level, technique, text, note, ref = c
    checks.append({
        "property_id": pid,
        "quick_cmd": f"./check {pid} quick",
        "thorough_cmd": f"./check {pid} thorough",
        "evidence_file": f"/verif/evidence/{pid}.json",
        "replay_cmd_template": "./check --replay {path}",
        "engine": "sdmmc-mc-limits" if pid == "C08" else "sdmmc-mc",
        "level_claimed": {"category": level, "text": text, "design_ref": ref},
        "level_note": note,
        "technique": technique,
    })
m = {
    "version": 1,
    "setup_cmd": "cd /verif/harness && CARGO_NET_OFFLINE=true cargo build --release --offline --bin sdmmc-mc --bin sdmmc-mc-limits-quick",
    "hooks": {
        "guard": "cargo feature verif-hooks (off by default)",
        "enable": "the harness depends on /repo with default-features = false, features = [\"verif-hooks\"]",
        "baseline_off_cmd": "cd /repo && cargo test --workspace --no-fail-fast --offline",
        "source_commits": ["0804a4e"],
        "add_only": True,
    },
    "engines": [{
        "name": "sdmmc-mc",
        "path": "/verif/harness",
        "serves_properties": [c["property_id"] for c in checks],
        "kind_free_text": "own bounded-exhaustive explorer driving the real crate: history BFS with fingerprint de-duplication (E1), deviation-bounded choice-point exploration (E2), crash-prefix enumeration (E3), exhaustive input enumeration (E4)",
    }],
    "checks": checks,
    "not_applicable": na,
    "notes": "Exit codes: 0 held, 1 violation (VIOLATION line), 2 machinery failure. known_findings.json lists recorded genuine defects.",
}
json.dump(m, open(os.path.join(HERE, "MANIFEST.json"), "w"), indent=1)
print(f"claimed {len(checks)} / not_applicable {len(na)}")
