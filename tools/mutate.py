#!/usr/bin/env python3
"""Mechanical mutation campaign against the quick checks (DESIGN.md section 11 (d)).

phase 1:  tools/mutate.py gen <workdir> <count> [seed]
    Picks <count> single-token mutations (comparison / boolean / +-1 operators) in the crate's non-test source,
    applies each in a scratch worktree of /repo under <workdir>, keeps those that still compile and pass the
    repository's own test suite, and stores them as <workdir>/m<NNN>.patch (+ a line in <workdir>/index.tsv).
phase 2:  tools/mutate.py run <workdir> <out.tsv>
    For every kept patch: git -C /repo apply, run every quick check, git -C /repo checkout -- . ; one line per
    mutant with the checks that reported a violation (exit 1), those that exited otherwise, and the mutation.
The choice of mutants is pseudo-random (seeded) but the verdicts are not sampled: every check runs in full.
"""
import os
import random
import re
import subprocess
import sys

FILES = ["src/fat/volume.rs", "src/volume_mgr.rs", "src/sdcard/mod.rs", "src/filesystem/filename.rs", "src/fat/bpb.rs",
         "src/blockdevice.rs", "src/filesystem/directory.rs", "src/filesystem/files.rs", "src/fat/ondiskdirentry.rs",
         "src/filesystem/timestamp.rs", "src/sdcard/proto.rs", "src/fat/info.rs", "src/filesystem/attributes.rs"]
OPS = [(" < ", " <= "), (" <= ", " < "), (" > ", " >= "), (" >= ", " > "), (" == ", " != "), (" != ", " == "),
       (" && ", " || "), (" || ", " && "), (" + 1", ""), (" - 1", ""), (" += ", " -= "), (" -= ", " += "),
       ("checked_add", "wrapping_add"), ("saturating_sub", "wrapping_sub"), ("0..", "1.."), (".is_some()", ".is_none()"),
       (".is_none()", ".is_some()"), ("true", "false"), ("false", "true")]
CHECKS = ["C%02d" % i for i in range(1, 20)]


def candidates():
    out = []
    for f in FILES:
        p = os.path.join("/repo", f)
        if not os.path.exists(p):
            continue
        lines = open(p).read().split("\n")
        for i, l in enumerate(lines):
            if "#[cfg(test)]" in l:
                break
            t = l.strip()
            if t.startswith("//") or t.startswith("#[") or re.search(r"\b(trace|debug|warn|info|error)!\(", l) or "assert" in l or "///" in l:
                continue
            for a, b in OPS:
                for m in re.finditer(re.escape(a), l):
                    out.append((f, i, m.start(), a, b))
    return out


def sh(cmd, cwd=None, timeout=900):
    return subprocess.run(cmd, shell=True, cwd=cwd, capture_output=True, text=True, timeout=timeout)


def gen(work, count, seed, skip=0):
    os.makedirs(work, exist_ok=True)
    wt = os.path.join(work, "wt")
    if not os.path.isdir(wt):
        sh("git -C /repo worktree add --detach -q %s HEAD" % wt)
    cands = candidates()
    random.Random(seed).shuffle(cands)
    cands = cands[skip:]
    kept = 0
    idx = open(os.path.join(work, "index.tsv"), "a")
    tried = 0
    for (f, i, col, a, b) in cands:
        if kept >= count:
            break
        tried += 1
        p = os.path.join(wt, f)
        sh("git checkout -q -- .", cwd=wt)
        lines = open(p).read().split("\n")
        l = lines[i]
        lines[i] = l[:col] + b + l[col + len(a):]
        open(p, "w").write("\n".join(lines))
        try:
            r = sh("timeout 300 cargo test --offline 2>&1 | grep -E '^test result|^error|FAILED|panicked' | head -20", cwd=wt, timeout=1200)
            txt = r.stdout
        except subprocess.TimeoutExpired:
            txt = "FAILED (timeout)"
        sh("pkill -f %s/target/debug/deps" % wt)
        ok = txt.count("test result: ok") >= 7 and "FAILED" not in txt and "error" not in txt
        desc = "%s:%d  %r -> %r   | %s" % (f, i + 1, a, b, l.strip()[:110])
        if ok:
            kept += 1
            name = "m%03d" % (len([x for x in os.listdir(work) if x.endswith(".patch")]) + 1)
            d = sh("git diff -- src", cwd=wt).stdout
            open(os.path.join(work, name + ".patch"), "w").write(d)
            idx.write("%s\t%s\n" % (name, desc))
            idx.flush()
            print("KEPT", name, desc, flush=True)
        else:
            print("killed-by-suite", desc, flush=True)
    sh("git checkout -q -- .", cwd=wt)
    print("tried", tried, "kept", kept)


def run(work, outp):
    names = {}
    for l in open(os.path.join(work, "index.tsv")):
        n, d = l.rstrip("\n").split("\t", 1)
        names[n] = d
    done = set()
    if os.path.exists(outp):
        done = {l.split("\t")[0] for l in open(outp)}
    out = open(outp, "a")
    for n in sorted(names):
        if n in done:
            continue
        assert sh("git -C /repo status --porcelain").stdout.strip() == "", "/repo not clean"
        r = sh("git -C /repo apply %s" % os.path.join(work, n + ".patch"))
        if r.returncode != 0:
            out.write("%s\tdoes-not-apply\t\t%s\n" % (n, names[n]))
            continue
        hit, other = [], []
        f = names[n].split(":")[0]
        if f.startswith("src/sdcard/"):
            subset = ["C12", "C13", "C14", "C19"]
        elif f.endswith("filename.rs"):
            subset = ["C06", "C17", "C18"]
        elif f.endswith(("timestamp.rs", "attributes.rs", "ondiskdirentry.rs", "directory.rs", "files.rs")):
            subset = ["C01", "C02", "C06", "C07", "C18"]
        elif f.endswith(("bpb.rs", "info.rs")):
            subset = ["C03", "C15", "C16"]
        elif f.endswith("volume_mgr.rs"):
            subset = [c for c in CHECKS if c not in ("C12", "C13", "C14", "C17", "C18", "C19")]
        else:
            # (src/fat/volume.rs also holds the long-name listing: C17)
            subset = [c for c in CHECKS if c not in ("C08", "C12", "C13", "C14", "C18", "C19")]
        for c in subset:
            rc = subprocess.run("cd /verif && ./check %s quick > /dev/null 2>&1" % c, shell=True).returncode
            if rc == 1:
                hit.append(c)
            elif rc != 0:
                other.append("%s(rc=%d)" % (c, rc))
        sh("git -C /repo checkout -- .")
        out.write("%s\t%s\t%s\t%s\n" % (n, " ".join(hit) or "SURVIVED", " ".join(other), names[n]))
        out.flush()
        print(n, " ".join(hit) or "SURVIVED", " ".join(other), names[n], flush=True)


if __name__ == "__main__":
    if sys.argv[1] == "gen":
        gen(sys.argv[2], int(sys.argv[3]), int(sys.argv[4]) if len(sys.argv) > 4 else 1, int(sys.argv[5]) if len(sys.argv) > 5 else 0)
    else:
        run(sys.argv[2], sys.argv[3])
