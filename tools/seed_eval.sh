#!/bin/sh
# usage: tools/seed_eval.sh <worktree-id> [seed-name] [checks...]
# 1) confirms in the scratch worktree: suite passes with the change, demo fails with it and passes without it
# 2) stores patch/demo/meta under /verif/seeded/<seed-name>/
# 3) applies the patch to /repo, runs the quick checks, restores /repo
ID="$1"; NAME="${2:-$1}"; shift; shift
CHECKS="$*"; [ -z "$CHECKS" ] && CHECKS="C01 C02 C03 C04 C05 C06 C07 C08 C09 C10 C11 C12 C13 C14 C15 C16 C17 C18 C19"
WTROOT="${WTROOT:-/tmp/wt}"; WT=$WTROOT/$ID
cd $WT || exit 2
# the agent's recorded patch is authoritative (git stash is shared between worktrees, so trees may have been mixed up)
if [ -s _seed/patch.diff ]; then
  git checkout -q -- src
  if ! git apply _seed/patch.diff 2>/dev/null; then echo "recorded patch does not apply in $WT"; exit 2; fi
fi
git diff -- src > $WTROOT/$ID.patch
[ -s $WTROOT/$ID.patch ] || { echo "no change in $WT"; exit 2; }
echo "--- confirm in worktree $WT"
mv tests/seed_demo.rs $WTROOT/$ID.demo.rs 2>/dev/null
[ -s $WTROOT/$ID.demo.rs ] || cp _seed/demo.rs $WTROOT/$ID.demo.rs
SUITE=$(cargo test --offline --no-fail-fast 2>&1 | grep -E "^test result" | awk '{p+=$4; f+=$6} END {print p" passed "f" failed"}')
cp $WTROOT/$ID.demo.rs tests/seed_demo.rs
echo "suite with change: $SUITE"
WITH=$(cargo test --offline --test seed_demo 2>&1 | grep -E "^test result" | head -1)
echo "demo with change: $WITH"
git checkout -q -- src
WITHOUT=$(cargo test --offline --test seed_demo 2>&1 | grep -E "^test result" | head -1)
git apply $WTROOT/$ID.patch
echo "demo without change: $WITHOUT"
mkdir -p /verif/seeded/$NAME
cp $WTROOT/$ID.patch /verif/seeded/$NAME/patch.diff
cp _seed/demo.rs /verif/seeded/$NAME/demo.rs 2>/dev/null || cp tests/seed_demo.rs /verif/seeded/$NAME/demo.rs
cp _seed/meta.json /verif/seeded/$NAME/agent_meta.json 2>/dev/null
echo "--- apply to /repo and run checks"
cd /repo && [ -z "$(git status --porcelain)" ] || { echo "/repo not clean"; exit 2; }
git apply $WTROOT/$ID.patch || { echo "patch does not apply to /repo"; exit 2; }
RES=""
for p in $CHECKS; do
  OUT=$(cd /verif && ./check $p quick 2>&1); RC=$?
  SIGS=$(echo "$OUT" | grep "signature:" | sed 's/.*signature: //' | head -4 | tr '\n' ';')
  echo "$p rc=$RC $SIGS"
  [ $RC -eq 1 ] && RES="$RES $p"
  [ $RC -eq 2 ] && RES="$RES $p(machinery!)"
done
git -C /repo checkout -- .
echo "CAUGHT BY:$RES"
python3 - "$NAME" "$SUITE" "$WITH" "$WITHOUT" "$RES" <<'PY'
import json,sys,os
name,suite,w,wo,res=sys.argv[1:6]
d='/verif/seeded/'+name
am={}
try: am=json.load(open(d+'/agent_meta.json'))
except Exception: pass
first=None
try: first=json.load(open(d+'/meta.json')).get("first_evaluation")
except Exception: pass
if first is None: first=res.split()
meta={"property": am.get("property", name[:3]), "summary": am.get("summary",""), "needs": am.get("needs",""),
      "confirmed": {"existing_suite_with_change": suite, "demo_with_change": w, "demo_without_change": wo},
      "first_evaluation": first,
      "quick_checks_that_report_a_violation": res.split(),
      "ran": "tools/seed_eval.sh (git -C /repo apply patch.diff; ./check <id> quick for all ids; git -C /repo checkout -- .)"}
json.dump(meta,open(d+'/meta.json','w'),indent=1)
PY
